package main

import (
	"encoding/binary"
	"encoding/json"
	"fmt"
	"os"
	"time"

	seccomp "github.com/elastic/go-seccomp-bpf"

	"verif/harness/vlib"
)

func init() { checks["replay"] = replayCmd }

// replayCmd re-executes a replay file written by a check against the current
// tree: vc replay <path>. Exit 1 if the refuting observation reproduces.
func replayCmd() {
	if len(os.Args) < 3 {
		fmt.Fprintln(os.Stderr, "usage: vc replay <replay.json>")
		os.Exit(2)
	}
	b, err := os.ReadFile(os.Args[2])
	if err != nil {
		fmt.Fprintln(os.Stderr, err)
		os.Exit(2)
	}
	var f struct {
		Property  string          `json:"property"`
		Signature string          `json:"signature"`
		What      string          `json:"what"`
		Replay    json.RawMessage `json:"replay"`
	}
	if err := json.Unmarshal(b, &f); err != nil {
		fmt.Fprintln(os.Stderr, err)
		os.Exit(2)
	}
	fmt.Printf("property %s, signature %s\nrecorded: %s\n\n", f.Property, f.Signature, f.What)
	var r struct {
		Check     string           `json:"check"`
		Policy    *vlib.PolicySpec `json:"policy"`
		Event     *vlib.Event      `json:"event"`
		Events    []vlib.Event     `json:"events"`
		BigEndian bool             `json:"big_endian"`
		Ops       []vlib.LOp       `json:"ops"`
		Case      *vlib.ChildCase  `json:"case"`
		Goarch    string           `json:"goarch"`
	}
	json.Unmarshal(f.Replay, &r)
	run := vlib.NewRun("replay", "other")
	o, ts := mustTargets(run)
	switch {
	case r.Ops != nil:
		out, err, pan := vlib.BuildLabelProgram(r.Ops)
		if pan != nil || err != nil {
			fmt.Printf("now: builder fails: err=%v panic=%v\n", err, pan)
			os.Exit(1)
		}
		if _, berr := vlib.Bisim(r.Ops, out, false); berr != nil {
			fmt.Printf("now: still not equivalent: %v\n", berr)
			os.Exit(1)
		}
		fmt.Println("now: the assembled program is equivalent to the label program")
	case r.Policy != nil && (r.Event != nil || len(r.Events) > 0):
		t := targetByName(ts, r.Policy.Arch)
		if t == nil {
			fmt.Println("unknown architecture in replay:", r.Policy.Arch)
			os.Exit(2)
		}
		if r.BigEndian {
			defer seccomp.VerifSetByteOrder(binary.BigEndian)()
		}
		c := vlib.Compile(r.Policy.Policy(), t)
		if !c.OK() {
			fmt.Printf("now: the policy does not compile: err=%v rawerr=%v panic=%v\n", c.Err, c.RawErr, c.Panic)
			os.Exit(1)
		}
		evs := r.Events
		if r.Event != nil {
			evs = append(evs, *r.Event)
		}
		bad := false
		var ref *vlib.Ref
		func() {
			defer func() { recover() }()
			ref = vlib.NewRef(r.Policy.Policy(), t)
		}()
		for _, e := range evs {
			w := e.Words(r.BigEndian)
			tr, err := c.RunBoth(&w, nil, false)
			if ref != nil {
				want, _ := ref.Decide(e)
				fmt.Printf("event %v: filter gives %#x (err=%v), reference semantics %#x\n", e, tr.Ret, err, want)
				if err != nil || tr.Ret != want {
					bad = true
				}
			} else {
				fmt.Printf("event %v: filter gives %#x (err=%v)\n", e, tr.Ret, err)
			}
		}
		if rule := vlib.KernelCheck(c.Raw); rule != "" && len(c.Raw) <= 4096 {
			fmt.Println("kernel verifier port rejects the program:", rule)
			bad = true
		}
		if bad {
			os.Exit(1)
		}
	case r.Policy != nil:
		t := targetByName(ts, r.Policy.Arch)
		c := vlib.Compile(r.Policy.Policy(), t)
		fmt.Printf("now: Assemble: err=%v panic=%v instructions=%d raw-encoding-error=%v\n", c.Err, c.Panic, len(c.Ins), c.RawErr)
		if c.OK() && len(c.Raw) <= 4096 {
			fmt.Printf("kernel verifier port: %q\n", vlib.KernelCheck(c.Raw))
		}
	case r.Case != nil:
		mode := "enforce"
		switch {
		case r.Case.History != nil:
			mode = "history"
		case r.Case.TSync != nil:
			mode = "tsync"
		case r.Case.NNPCase != nil:
			mode = "nnp"
		}
		variant := ""
		if r.Goarch == "386" {
			variant = "386"
		}
		bin, err := vlib.BuildHarnessCmd("vchild", variant)
		if err != nil {
			fmt.Println(err)
			os.Exit(3)
		}
		res, err := vlib.RunChild(bin, mode, r.Case, false, 60*time.Second)
		if err != nil {
			fmt.Println(err)
			os.Exit(3)
		}
		fmt.Printf("child (%s) exit=%d signaled=%v signal=%v timed_out=%v\n%s\n%s\n", mode, res.ExitCode, res.Signaled, res.Signal, res.TimedOut, res.Stdout, tail(res.Stderr, 2000))
		fmt.Println("(the child's report is printed; re-run the check for the verdict)")
	default:
		fmt.Printf("no generic re-execution for this replay; its content:\n%s\n", f.Replay)
	}
	_ = o
}
