package main

import (
	"fmt"
	"math/rand"
	"strings"
	"sync"
	"syscall"
	"time"

	seccomp "github.com/elastic/go-seccomp-bpf"
	"golang.org/x/net/bpf"

	"verif/harness/vlib"
)

func init() { checks["C08"] = c08 }

// probe syscalls: ignore their arguments, have no side effect, never fail and
// are not used by the Go runtime.
var probeNames = map[string][]string{
	"amd64": {"getppid", "getpgrp", "getuid", "geteuid", "getgid", "getegid", "munlockall"},
	"386":   {"getppid", "getpgrp", "getuid", "geteuid", "getgid", "getegid", "munlockall", "getuid32", "geteuid32", "getgid32", "getegid32"},
}

func hostTarget(ts []*vlib.Target, goarch string) *vlib.Target {
	if goarch == "386" {
		return targetByName(ts, "i386")
	}
	return targetByName(ts, "x86_64")
}

func kernelValue(r *rand.Rand, t *vlib.Target, probes []string, narrow bool) uint64 {
	v := vlib.RandValue(r, t, probes)
	if narrow && r.Intn(4) != 0 {
		v &= 0xffffffff
	}
	return v
}

// genProbePolicy generates a policy that only decides about probe syscalls
// (everything the Go runtime needs stays allowed).
// style 0: deny-list, default allow/log; 1: allow-list of the whole table
// minus probes, default errno (early-return bridges); 2: long condition
// lists on probes ('ja' bridges).
func genProbePolicy(r *rand.Rand, t *vlib.Target, probes []string, style int, narrow bool, lethalOK bool) *seccomp.Policy {
	acts := []seccomp.Action{vlib.RetErrno, vlib.RetErrno, vlib.RetErrno, vlib.RetTrace, vlib.RetLog, vlib.RetAllow, vlib.RetUserNotif, 0x00050005, 0x0005000d}
	if lethalOK {
		acts = append(acts, vlib.RetKillProcess, vlib.RetKillProcess, vlib.RetTrap)
	}
	pick := func() seccomp.Action { return acts[r.Intn(len(acts))] }
	p := &seccomp.Policy{DefaultAction: []seccomp.Action{vlib.RetAllow, vlib.RetAllow, vlib.RetLog}[r.Intn(3)]}
	condEntry := func(name string, lists, maxConds int) []seccomp.NameWithConditions {
		var out []seccomp.NameWithConditions
		for l := 0; l < lists; l++ {
			var cs seccomp.ArgumentConditions
			for k := 0; k < 1+r.Intn(maxConds); k++ {
				cs = append(cs, seccomp.Condition{Argument: uint32(r.Intn(6)), Operation: vlib.AllOps[r.Intn(8)], Value: kernelValue(r, t, probes, narrow)})
			}
			out = append(out, seccomp.NameWithConditions{Name: name, Conditions: cs})
		}
		return out
	}
	shuffled := append([]string{}, probes...)
	r.Shuffle(len(shuffled), func(i, j int) { shuffled[i], shuffled[j] = shuffled[j], shuffled[i] })
	switch style {
	case 1:
		p.DefaultAction = vlib.RetErrno
		denied := map[string]bool{}
		for _, n := range shuffled[:2+r.Intn(3)] {
			denied[n] = true
		}
		var allow []string
		for _, n := range t.Names {
			if !denied[n] {
				allow = append(allow, n)
			}
		}
		r.Shuffle(len(allow), func(i, j int) { allow[i], allow[j] = allow[j], allow[i] })
		if r.Intn(2) == 0 { // split the allow-list over several groups
			k := len(allow) / 2
			p.Syscalls = append(p.Syscalls, seccomp.SyscallGroup{Names: allow[:k], Action: vlib.RetAllow}, seccomp.SyscallGroup{Names: allow[k:], Action: vlib.RetAllow})
		} else {
			p.Syscalls = append(p.Syscalls, seccomp.SyscallGroup{Names: allow, Action: vlib.RetAllow})
		}
		// conditional allow for one denied probe, in a later group
		for n := range denied {
			p.Syscalls = append(p.Syscalls, seccomp.SyscallGroup{Action: []seccomp.Action{vlib.RetAllow, vlib.RetLog, vlib.RetTrace}[r.Intn(3)], NamesWithCondtions: condEntry(n, 1+r.Intn(3), 4)})
			break
		}
	case 2:
		ng := 1 + r.Intn(3)
		used := 0
		for g := 0; g < ng && used < len(shuffled); g++ {
			grp := seccomp.SyscallGroup{Action: pick()}
			for k := 0; k < 1+r.Intn(2) && used < len(shuffled); k++ {
				grp.NamesWithCondtions = append(grp.NamesWithCondtions, condEntry(shuffled[used], 12+r.Intn(19), 6)...)
				used++
			}
			p.Syscalls = append(p.Syscalls, grp)
		}
	default:
		ng := 1 + r.Intn(4)
		for g := 0; g < ng; g++ {
			grp := seccomp.SyscallGroup{Action: pick()}
			usedHere := map[string]bool{}
			for k := 0; k < r.Intn(3); k++ {
				n := probes[r.Intn(len(probes))]
				if !usedHere[n] {
					usedHere[n] = true
					grp.Names = append(grp.Names, n)
				}
			}
			for k := 0; k < r.Intn(3); k++ {
				n := probes[r.Intn(len(probes))]
				if !usedHere[n] {
					usedHere[n] = true
					grp.NamesWithCondtions = append(grp.NamesWithCondtions, condEntry(n, 1+r.Intn(3), 5)...)
				}
			}
			p.Syscalls = append(p.Syscalls, grp)
		}
	}
	return p
}

// probeEventsFor builds directed probes for the policy: for every list on a
// probe a satisfying vector and vectors failing exactly one condition, each
// also issued under the other probe numbers, plus adversarial fills.
func probeEventsFor(r *rand.Rand, p *seccomp.Policy, t *vlib.Target, probes []string, narrow bool, max int) []vlib.Probe {
	pool := vlib.AdversarialPool(p, t)
	if narrow {
		for i := range pool {
			pool[i] &= 0xffffffff
		}
	}
	isProbe := map[string]bool{}
	for _, n := range probes {
		isProbe[n] = true
	}
	var out []vlib.Probe
	add := func(nr uint32, a [6]uint64) {
		if narrow {
			for i := range a {
				a[i] &= 0xffffffff
			}
		}
		out = append(out, vlib.Probe{Kind: "syscall", NR: uint64(nr), Args: a})
	}
	for _, g := range p.Syscalls {
		for _, nc := range g.NamesWithCondtions {
			if !isProbe[nc.Name] || len(out) > max {
				continue
			}
			var sets [][6]uint64
			if a, ok := vlib.Satisfy(r, nc.Conditions, vlib.FillArgs(r, pool)); ok {
				sets = append(sets, a)
			}
			for k := range nc.Conditions {
				if a, ok := vlib.FailExactly(r, nc.Conditions, k, vlib.FillArgs(r, pool)); ok {
					sets = append(sets, a)
				}
			}
			for _, a := range sets {
				add(t.Num[nc.Name], a)
				add(t.Num[probes[r.Intn(len(probes))]], a) // leak probe under another probe number
			}
		}
	}
	for _, n := range probes {
		for k := 0; k < 3; k++ {
			add(t.Num[n], vlib.FillArgs(r, pool))
		}
	}
	r.Shuffle(len(out), func(i, j int) { out[i], out[j] = out[j], out[i] })
	if len(out) > max {
		out = out[:max]
	}
	return out
}

func jsonU64(v any) uint64 {
	var x uint64
	fmt.Sscan(fmt.Sprint(v), &x)
	return x
}

func rawEqual(a, b []bpf.RawInstruction) bool {
	if len(a) != len(b) {
		return false
	}
	for i := range a {
		if a[i] != b[i] {
			return false
		}
	}
	return true
}

func installedProgram(line map[string]any, idx int) ([]bpf.RawInstruction, uint32, bool) {
	ins, _ := line["installs"].([]any)
	if idx >= len(ins) {
		return nil, 0, false
	}
	m, _ := ins[idx].(map[string]any)
	var prog []bpf.RawInstruction
	rows, _ := m["prog"].([]any)
	for _, row := range rows {
		q, _ := row.([]any)
		if len(q) == 4 {
			prog = append(prog, bpf.RawInstruction{Op: uint16(jsonU64(q[0])), Jt: uint8(jsonU64(q[1])), Jf: uint8(jsonU64(q[2])), K: uint32(jsonU64(q[3]))})
		}
	}
	return prog, uint32(jsonU64(m["flags"])), true
}

// kernelCase is one child run with its expectations.
type kernelCase struct {
	goarch string
	t      *vlib.Target
	cc     *vlib.ChildCase
	strace bool
	lethal bool // last probe expected lethal
	// expectRefusal: the kernel must refuse this load (thread-sync next to a divergent filter); an error is then the right answer
	expectRefusal bool
	desc          string
}

type kernelStats struct {
	mu       sync.Mutex
	outcomes map[string]int64
	perABI   map[string]int64
	maxLen   int
	shapes   map[string]bool
}

// judgeEnforce runs the case and judges it for property `prop`. It returns
// false if the run was inconclusive.
func judgeEnforce(run *vlib.Run, o *vlib.Oracles, kc *kernelCase, st *kernelStats, prefix string) bool {
	variant := ""
	if kc.goarch == "386" {
		variant = "386"
	}
	bin, err := vlib.BuildHarnessCmd("vchild", variant)
	if err != nil {
		run.Inconclusive("cannot build vchild: " + err.Error())
		return false
	}
	spec := kc.cc.Policy
	comp := vlib.Compile(spec.Policy(), kc.t)
	if !comp.OK() || len(comp.Raw) > 4096 {
		run.Count(prefix+"cases_skipped_not_loadable", 1)
		return true
	}
	ref := vlib.NewRef(spec.Policy(), kc.t)
	res, err := vlib.RunChild(bin, "enforce", kc.cc, kc.strace, 20*time.Second)
	if err != nil {
		run.Inconclusive("cannot run child: " + err.Error())
		return false
	}
	run.Count(prefix+"children", 1)
	replay := map[string]any{"check": run.ID, "desc": kc.desc, "goarch": kc.goarch, "case": kc.cc, "stdout_tail": tail(res.Stdout, 1200), "stderr_tail": tail(res.Stderr, 600)}
	if res.TimedOut {
		run.Count(prefix+"watchdog_fired", 1)
		run.SoftInconclusive(fmt.Sprintf("watchdog: child did not finish (%s)", kc.desc))
		return false
	}
	loaded := res.Line("loaded")
	if loaded == nil {
		run.SoftInconclusive(fmt.Sprintf("child produced no 'loaded' line (%s): %s", kc.desc, tail(res.Stderr, 300)))
		return false
	}
	// the program at the boundary
	if prog, flags, ok := installedProgram(loaded, 0); ok {
		run.Count(prefix+"programs_compared_at_hook", 1)
		if !rawEqual(prog, comp.Raw) {
			run.Violation("program-differs-at-hook", fmt.Sprintf("%s: the sock_filter array LoadFilter built (%d instructions) is not the compiled program (%d instructions)", kc.desc, len(prog), len(comp.Raw)), replay)
			return true
		}
		if flags != kc.cc.Flags {
			run.Violation("flags-differ-at-hook", fmt.Sprintf("%s: flags %#x requested, %#x passed on", kc.desc, kc.cc.Flags, flags), replay)
			return true
		}
	}
	if kc.strace {
		var sc *vlib.StraceCall
		skippedOuter := false
		for i := range res.Strace {
			if res.Strace[i].Name == "seccomp" && len(res.Strace[i].Args) > 0 && res.Strace[i].Args[0] == 1 {
				if kc.cc.SiblingLoads > 0 && res.Strace[i].Tid != int(jsonU64(loaded["tid"])) {
					continue // a sibling thread's load
				}
				if kc.cc.OuterPolicy != nil && !skippedOuter {
					skippedOuter = true // the harness' own earlier load of the outer filter
					continue
				}
				sc = &res.Strace[i]
				break
			}
		}
		if sc == nil {
			run.Inconclusive("strace saw no seccomp(SET_MODE_FILTER) call: " + kc.desc)
			return false
		}
		run.Count(prefix+"programs_compared_at_syscall_boundary", 1)
		if sc.Len != len(comp.Raw) || !rawEqual(sc.Prog, comp.Raw) {
			run.Violation("program-differs-at-syscall", fmt.Sprintf("%s: the kernel received len=%d with %d decoded instructions, the compiled program has %d", kc.desc, sc.Len, len(sc.Prog), len(comp.Raw)), replay)
			return true
		}
		if len(sc.Args) > 1 && uint32(sc.Args[1]) != kc.cc.Flags {
			run.Violation("flags-differ-at-syscall", fmt.Sprintf("%s: flags %#x requested, the kernel received %#x", kc.desc, kc.cc.Flags, sc.Args[1]), replay)
			return true
		}
	}
	if ok, _ := loaded["ok"].(bool); !ok && kc.expectRefusal {
		run.Count(prefix+"thread_sync_refusals_reported_as_errors", 1)
		return true
	}
	if ok, _ := loaded["ok"].(bool); !ok {
		if !kc.strace { // look at the boundary before giving up
			kc2 := *kc
			kc2.strace = true
			return judgeEnforce(run, o, &kc2, st, prefix)
		}
		run.Count(prefix+"valid_policy_failed_to_load", 1)
		run.Inconclusive(fmt.Sprintf("LoadFilter failed for a valid policy although the program at the boundary is the compiled one (%s): %v", kc.desc, loaded["err"]))
		return false
	}
	after, _ := loaded["after"].(map[string]any)
	if after == nil || fmt.Sprint(after["Seccomp"]) != "2" {
		run.Violation("nil-but-no-filter", fmt.Sprintf("%s: LoadFilter returned nil but /proc status shows Seccomp=%v", kc.desc, after["Seccomp"]), replay)
		return true
	}
	// probes
	post := map[int]map[string]any{}
	pre := map[int]bool{}
	gone := map[int]string{}
	for _, l := range res.Lines {
		i := int(jsonU64(l["i"]))
		switch l["ev"] {
		case "pre":
			pre[i] = true
		case "post":
			post[i] = l
		case "thread-gone", "thread-survived", "thread-wait-timeout":
			gone[i] = fmt.Sprint(l["ev"])
		}
	}
	local := map[string]int64{}
	for i, p := range kc.cc.Probes {
		e := vlib.ProbeEvent(kc.goarch, p, o)
		want, _ := ref.Decide(e)
		w := e.Words(false)
		tr, ierr := comp.RunBoth(&w, nil, false)
		exp := vlib.ExpectWord(want)
		last := i == len(kc.cc.Probes)-1
		what := fmt.Sprintf("%s: probe %d %+v (event %v): policy says %#x", kc.desc, i, p, e, want)
		if ierr != nil || tr.Ret != want {
			// the compiled program itself disagrees with the reference: the kernel
			// can only follow the program. That is C01/C03's subject; here the
			// kernel is compared with the policy, as the property states.
			run.Count(prefix+"interpreter_disagrees_with_reference", 1)
		}
		if !pre[i] {
			run.Violation("child-died-early", fmt.Sprintf("%s: the child stopped before probe %d although no earlier probe was lethal (exit=%d signaled=%v sig=%v): %s", kc.desc, i, res.ExitCode, res.Signaled, res.Signal, tail(res.Stderr, 300)), replay)
			return true
		}
		switch exp.Class {
		case vlib.OutRuns, vlib.OutErrno:
			l := post[i]
			if l == nil {
				run.Violation("probe-killed-unexpectedly", what+fmt.Sprintf(", but the child did not survive the probe (exit=%d signaled=%v sig=%v)", res.ExitCode, res.Signaled, res.Signal), replay)
				return true
			}
			if kc.cc.PauseBetweenProbes && l["tid"] != nil && jsonU64(l["tid"]) != jsonU64(loaded["tid"]) {
				run.Violation("caller-moved-off-its-locked-thread", what+fmt.Sprintf(": the calling goroutine had locked its OS thread %d before LoadFilter; after the load it runs on thread %d (its lock is gone), where the filter of a load without thread-sync is not in force", jsonU64(loaded["tid"]), jsonU64(l["tid"])), replay)
				return true
			}
			errno := uint32(jsonU64(l["errno"]))
			wantErrno := uint32(0)
			if exp.Class == vlib.OutErrno {
				wantErrno = exp.Errno
			}
			if p.Kind == "syscall" && kc.goarch == "amd64" && uint32(p.NR) >= vlib.X32Bit && exp.Class == vlib.OutRuns {
				wantErrno = vlib.ENOSYS // allowed by the filter, but this kernel has no x32 ABI
			}
			if errno != wantErrno {
				sig := "allowed-but-denied"
				if wantErrno != 0 {
					sig = "denied-but-allowed-or-wrong-errno"
				}
				run.Violation(sig, what+fmt.Sprintf(" => errno %d expected, the kernel returned errno %d", wantErrno, errno), replay)
				return true
			}
			if ierr == nil && tr.Ret == want {
				run.Count(prefix+"three_way_agreements", 1)
			}
			switch {
			case exp.Class == vlib.OutRuns:
				local["allowed"]++
			case exp.Errno == vlib.EPERM:
				local["EPERM"]++
			case exp.Errno == vlib.ENOSYS:
				local["ENOSYS"]++
			default:
				local["other-errno"]++
			}
		case vlib.OutSigsys:
			if !last {
				run.Inconclusive("harness fault: lethal probe not last")
				return false
			}
			if post[i] != nil {
				run.Violation("lethal-action-survived", what+", but the syscall returned", replay)
				return true
			}
			switch {
			case kc.cc.KillThreadProbe:
				if gone[i] != "thread-gone" {
					if gone[i] == "thread-wait-timeout" {
						run.SoftInconclusive("kill_thread probe: " + gone[i])
						return false
					}
					run.Violation("kill-thread-not-enforced", what+": "+gone[i], replay)
					return true
				}
				local["thread-killed"]++
			case exp.Action == vlib.RetTrap:
				if !(strings.Contains(res.Stderr, "SIGSYS") || strings.Contains(res.Stderr, "bad system call") || (res.Signaled && res.Signal == syscall.SIGSYS)) {
					run.Violation("trap-not-delivered", what+fmt.Sprintf(": expected SIGSYS, got exit=%d signaled=%v sig=%v stderr=%s", res.ExitCode, res.Signaled, res.Signal, tail(res.Stderr, 200)), replay)
					return true
				}
				local["SIGSYS-trap"]++
			default:
				if !(res.Signaled && res.Signal == syscall.SIGSYS) {
					run.Violation("kill-not-enforced", what+fmt.Sprintf(": expected death by SIGSYS, got exit=%d signaled=%v sig=%v", res.ExitCode, res.Signaled, res.Signal), replay)
					return true
				}
				local["SIGSYS-kill"]++
			}
		}
	}
	if !kc.lethal && res.Line("done") == nil {
		run.Violation("child-died-early", fmt.Sprintf("%s: the child did not finish although no probe was lethal (exit=%d signaled=%v sig=%v): %s", kc.desc, res.ExitCode, res.Signaled, res.Signal, tail(res.Stderr, 300)), replay)
		return true
	}
	run.Count(prefix+"probes", int64(len(kc.cc.Probes)))
	st.mu.Lock()
	for k, v := range local {
		st.outcomes[k] += v
	}
	st.perABI[kc.goarch]++
	if len(comp.Raw) > st.maxLen {
		st.maxLen = len(comp.Raw)
	}
	st.shapes[fmt.Sprint(kc.goarch, len(comp.Raw), kc.cc.Flags, kc.cc.NNP, len(spec.Groups))] = true
	st.mu.Unlock()
	return true
}

func tail(s string, n int) string {
	if len(s) > n {
		return "..." + s[len(s)-n:]
	}
	return s
}

// buildKernelCase generates policy + probes, orders lethal probes last.
func buildKernelCase(r *rand.Rand, o *vlib.Oracles, ts []*vlib.Target, goarch string, style int, lethalOK, killThread bool) *kernelCase {
	t := hostTarget(ts, goarch)
	probes := probeNames[goarch]
	narrow := goarch == "386"
	p := genProbePolicy(r, t, probes, style, narrow, lethalOK)
	if r.Intn(8) == 0 && lethalOK {
		vlib.AddDataBits(r, p) // ERRNO|EACCES, TRACE|7, LOG|1, ...: the kernel's treatment of the data bits is the oracle's
	}
	if killThread {
		p.Syscalls = append([]seccomp.SyscallGroup{{Names: []string{probes[r.Intn(len(probes))]}, Action: vlib.RetKillThread}}, p.Syscalls...)
		// no duplicate of that name inside the same group is possible: it is a group of its own
	}
	spec := vlib.SpecOf(p, t.Name)
	ref := vlib.NewRef(spec.Policy(), t)
	all := probeEventsFor(r, p, t, probes, narrow, 160)
	var safe, lethal []vlib.Probe
	for _, pr := range all {
		w, _ := ref.Decide(vlib.ProbeEvent(goarch, pr, o))
		if vlib.ExpectWord(w).Class == vlib.OutSigsys {
			lethal = append(lethal, pr)
		} else {
			safe = append(safe, pr)
		}
	}
	kc := &kernelCase{goarch: goarch, t: t, desc: fmt.Sprintf("%s style=%d", goarch, style)}
	cc := &vlib.ChildCase{Policy: spec, Flags: uint32(r.Intn(4)), NNP: r.Intn(2) == 0, Probes: safe}
	if len(lethal) > 0 {
		pick := lethal[r.Intn(len(lethal))]
		if killThread {
			for _, l := range lethal {
				w, _ := ref.Decide(vlib.ProbeEvent(goarch, l, o))
				if vlib.ExpectWord(w).Action == vlib.RetKillThread {
					pick = l
					cc.KillThreadProbe = true
					// the expendable thread is created after the load by whatever
					// thread the runtime chooses: only thread-sync guarantees it is filtered
					cc.Flags |= 1
					break
				}
			}
		} else {
			// never a kill_thread probe on the main thread (the process would hang)
			var ok []vlib.Probe
			for _, l := range lethal {
				w, _ := ref.Decide(vlib.ProbeEvent(goarch, l, o))
				if vlib.ExpectWord(w).Action != vlib.RetKillThread {
					ok = append(ok, l)
				}
			}
			if len(ok) == 0 {
				kc.cc = cc
				return kc
			}
			pick = ok[r.Intn(len(ok))]
		}
		cc.Probes = append(cc.Probes, pick)
		kc.lethal = true
	}
	kc.cc = cc
	return kc
}

func c08() {
	run := vlib.NewRun("C08", "exploration")
	o, ts := mustTargets(run)
	st := &kernelStats{outcomes: map[string]int64{}, perABI: map[string]int64{}, shapes: map[string]bool{}}
	n := run.N(640, 15000)
	vlib.Parallel(n, func(i int) {
		r := caseRand(run, i)
		goarch := "amd64"
		if i%3 == 2 {
			goarch = "386"
		}
		style := []int{0, 0, 1, 2}[i%4]
		kc := buildKernelCase(r, o, ts, goarch, style, i%2 == 0, run.Thorough() && i%25 == 7)
		kc.strace = i%2 == 0
		if i%7 == 3 && !kc.cc.KillThreadProbe {
			// another thread loads the very same filter first; the judged load must still attach its own
			kc.cc.Flags &^= 1
			kc.cc.PreloadOnOtherThread = true
			kc.strace = false
			run.Count("children_with_identical_preload_on_other_thread", 1)
		}
		divergent := false
		if i%13 == 9 && !kc.cc.KillThreadProbe && !kc.cc.PreloadOnOtherThread && goarch == "amd64" {
			// another thread carries a different filter (loaded without thread-sync): a thread-sync load, with whatever other
			// valid flag bits, must then be refused - and if it reports success it is judged like any other load
			other := vlib.SpecOf(&seccomp.Policy{DefaultAction: vlib.RetAllow, Syscalls: []seccomp.SyscallGroup{{Names: []string{"munlockall"}, Action: vlib.RetLog}}}, "x86_64")
			kc.cc.PreloadOnOtherThread, kc.cc.PreloadPolicy = true, &other
			kc.cc.Flags = 1 | []uint32{0, 2, 4, 6}[(i/13)%4]
			kc.strace = false
			divergent = true
			run.Count("children_with_divergent_filter_on_another_thread", 1)
		}
		kc.expectRefusal = divergent
		if i%11 == 6 && !kc.cc.KillThreadProbe && !kc.cc.PreloadOnOtherThread {
			kc.cc.StraceInject = vlib.UnamePoke(vlib.FakeKernelReleases[(i/11)%len(vlib.FakeKernelReleases)])
			kc.strace = true
			run.Count("children_seeing_a_faked_kernel_release", 1)
		}
		if i%9 == 7 && !kc.cc.KillThreadProbe && !kc.cc.PreloadOnOtherThread && kc.cc.StraceInject == nil {
			// other threads load another policy while the judged load is between its steps
			kc.cc.Flags &^= 1
			kc.cc.SiblingLoads = 1 + (i/9)%3
			run.Count("children_with_sibling_threads_loading_concurrently", 1)
		}
		if i%10 == 8 && goarch == "amd64" && !kc.cc.KillThreadProbe && !kc.cc.PreloadOnOtherThread && kc.cc.SiblingLoads == 0 {
			// a staged lock-down: the judged load runs under an earlier filter of the same thread that lets a thread install
			// further filters but answers every other operation of seccomp(2) (and nothing else) with an error
			outer := vlib.SpecOf(&seccomp.Policy{DefaultAction: vlib.RetAllow, Syscalls: []seccomp.SyscallGroup{{NamesWithCondtions: []seccomp.NameWithConditions{
				{Name: "seccomp", Conditions: seccomp.ArgumentConditions{{Argument: 0, Operation: seccomp.NotEqual, Value: 1}}}}, Action: vlib.RetErrno}}}, "x86_64")
			kc.cc.OuterPolicy = &outer
			run.Count("children_whose_load_runs_under_an_earlier_filter_of_the_same_thread", 1)
		}
		if i%10 == 3 && goarch == "amd64" {
			// an environment: the process runs in the PER_LINUX32 execution domain (linux32, setarch i686, 32-bit chroots):
			// uname(2) reports i686, the system calls are still those of the x86_64 ABI
			kc.cc.Linux32 = true
			run.Count("children_in_the_linux32_execution_domain", 1)
		}
		if i%6 == 4 && !kc.cc.KillThreadProbe {
			kc.cc.PauseBetweenProbes = true
			run.Count("children_pausing_between_probes", 1)
		}
		kc.cc.Env = vlib.RuntimeKnobs[(i/3)%len(vlib.RuntimeKnobs)]
		if i%5 == 1 {
			// a garbage collection and a spray of same-sized allocations at the last hook before the system call:
			// the kernel must still be handed the compiled program
			kc.cc.GCSpray = 1 + (i/5)%3
			run.Count("children_with_gc_and_allocation_spray_before_the_seccomp_call", 1)
		}
		kc.desc = fmt.Sprintf("case %d %s", i, kc.desc)
		judgeEnforce(run, o, kc, st, "")
		if i == 1 || i == 2 {
			run.Sample(3, map[string]any{"desc": kc.desc, "policy": kc.cc.Policy.Brief(), "flags": kc.cc.Flags, "nnp": kc.cc.NNP, "probes": len(kc.cc.Probes), "first_probe": kc.cc.Probes[0], "last_probe_lethal": kc.lethal})
		}
	})
	// sanitizer variants of the child (thorough): checkptr instrumentation on the loader's unsafe use
	if run.Thorough() {
		for _, variant := range []string{"checkptr", "race"} {
			bin, err := vlib.BuildHarnessCmd("vchild", variant)
			if err != nil {
				run.Inconclusive("cannot build vchild " + variant + ": " + err.Error())
				continue
			}
			vlib.Parallel(150, func(i int) {
				r := caseRand(run, 900000+i)
				kc := buildKernelCase(r, o, ts, "amd64", []int{0, 1, 2}[i%3], false, false)
				res, err := vlib.RunChild(bin, "enforce", kc.cc, false, 30*time.Second)
				if err != nil || res.TimedOut {
					run.SoftInconclusive("sanitizer child did not run")
					return
				}
				run.Count("sanitizer_children:"+variant, 1)
				if strings.Contains(res.Stderr, "checkptr") || strings.Contains(res.Stderr, "DATA RACE") || strings.Contains(res.Stderr, "fatal error") {
					run.Violation("sanitizer:"+variant, fmt.Sprintf("the %s build of the child reports: %s", variant, tail(res.Stderr, 800)), map[string]any{"check": "C08", "case": kc.cc, "stderr": tail(res.Stderr, 3000)})
				}
			})
		}
	}
	for k, v := range st.outcomes {
		run.Count("outcome:"+k, v)
	}
	run.Set("children_per_abi", st.perABI)
	run.Set("max_program_len_loaded", st.maxLen)
	run.Assume("host kernel only (amd64 and i386 ABIs of this machine); no tracer and no notification listener attached, so TRACE and USER_NOTIF answer ENOSYS",
		"probe syscalls are getppid/getpgrp/get*id/munlockall, which ignore their arguments; everything else the Go runtime needs is never denied by a generated policy",
		"386 children can only produce argument values below 2^32")
	if run.Violations() == 0 {
		run.Require("children", int64(n*9/10))
		run.Require("outcome:allowed", 100)
		run.Require("outcome:EPERM", 100)
		run.Require("outcome:ENOSYS", 10)
		run.Require("outcome:SIGSYS-kill", 3)
		run.Require("programs_compared_at_syscall_boundary", 10)
		run.Require("three_way_agreements", 1000)
	}
	run.Finish(run.Counter("probes"), int64(len(st.shapes)),
		"one fresh child process per case: PRNG policies over probe syscalls (deny-lists, whole-table allow-lists minus probes, 12..30-list entries; conditions on all six arguments; several groups) loaded through the real LoadFilter with flags 0..3 and NNP on/off in amd64 and 386 children; directed probe syscalls with arbitrary register values; kernel outcome vs reference semantics vs interpreter; program compared at hook H3 and (sampled) at the syscall boundary via strace; distinct = (abi, program length, flags, nnp, groups)")
}
