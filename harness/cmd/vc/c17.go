package main

import (
	"fmt"
	"io"
	"os"
	"path/filepath"
	"sort"
	"strings"
	"sync"
	"time"

	"verif/harness/vlib"
)

func init() { checks["C17"] = c17 }

func copyFile(dst, src string) error {
	in, err := os.Open(src)
	if err != nil {
		return err
	}
	defer in.Close()
	out, err := os.OpenFile(dst, os.O_CREATE|os.O_TRUNC|os.O_WRONLY, 0o755)
	if err != nil {
		return err
	}
	defer out.Close()
	_, err = io.Copy(out, in)
	return err
}

// profileNames extracts the names of the YAML profile the profiler prints.
func profileNames(stdout string) []string {
	var out []string
	in := false
	for _, l := range strings.Split(stdout, "\n") {
		t := strings.TrimSpace(l)
		switch {
		case strings.HasPrefix(t, "- names:") || t == "names:":
			in = true
		case in && strings.HasPrefix(t, "- "):
			out = append(out, strings.TrimPrefix(t, "- "))
		case in && t != "":
			in = false
		}
	}
	return out
}

type profilerFixture struct {
	profiler string
	binA     string // Go ELF inputs (distinct content)
	binB     string
	listA    string
	listB    string
	namesA   []string
	namesB   []string
	lenA     int
}

// newProfilerFixture builds the profiler from /repo and prepares two inputs
// with model-generated listings.
func newProfilerFixture(run *vlib.Run, functions int) *profilerFixture {
	o, err := vlib.LoadOracles()
	if err != nil {
		run.Inconclusive(err.Error())
		return nil
	}
	table := map[int]string{}
	for name, nr := range o.Tables["x86_64"]["uapi"] {
		table[nr] = name
	}
	prof, err := vlib.BuildRepoCmd("./cmd/seccomp-profiler", "seccomp-profiler")
	if err != nil {
		run.Inconclusive("cannot build seccomp-profiler: " + err.Error())
		return nil
	}
	a, err := vlib.BuildHarnessCmd("vchild", "")
	if err != nil {
		run.Inconclusive(err.Error())
		return nil
	}
	fx := &profilerFixture{profiler: prof, binA: a, binB: prof}
	dir := filepath.Join(vlib.BinDir(), "c17fix")
	os.MkdirAll(dir, 0o755)
	mk := func(seed int, path string) []string {
		r := caseRand(run, 777000+seed)
		text, exp := renderListing(genFunctions(r, functions, table), false, table, r)
		os.WriteFile(path, []byte(text), 0o644)
		set := map[string]bool{}
		for _, e := range exp {
			set[table[e.Num]] = true
		}
		var names []string
		for n := range set {
			names = append(names, n)
		}
		sort.Strings(names)
		if seed == 1 {
			fx.lenA = len(text)
		}
		return names
	}
	fx.listA, fx.listB = filepath.Join(dir, "listing-A.txt"), filepath.Join(dir, "listing-B.txt")
	fx.namesA = mk(1, fx.listA)
	fx.namesB = mk(2, fx.listB)
	return fx
}

func c17() {
	run := vlib.NewRun("C17", "fault_enumeration")
	fx := newProfilerFixture(run, 400)
	if fx == nil {
		run.Finish(0, 0, "")
	}
	argv := func(bin string) []string { return []string{fx.profiler, "-format", "config", bin} }

	// cold-cache reference profiles
	cold := func(bin, listing string) (string, bool) {
		th, err := vlib.NewToolHome()
		if err != nil {
			return "", false
		}
		defer th.Remove()
		target := filepath.Join(th.Dir, "target")
		copyFile(target, bin)
		res, err := th.Run(vlib.ToolRun{Argv: argv(target), FakeMode: "emit", Listing: listing})
		if err != nil || res.ExitCode != 0 || res.TimedOut {
			return fmt.Sprintf("%v %+v", err, res), false
		}
		return res.Stdout, true
	}
	coldA, okA := cold(fx.binA, fx.listA)
	coldB, okB := cold(fx.binB, fx.listB)
	if !okA || !okB {
		run.Inconclusive("cold-cache reference run failed: " + tail(coldA+coldB, 400))
		run.Finish(0, 0, "")
	}
	if fmt.Sprint(profileNames(coldA)) != fmt.Sprint(fx.namesA) {
		// the profile content itself is C18's subject; C17 only needs a stable reference
		run.Count("cold_profile_differs_from_site_model", 1)
	}
	if coldA == coldB {
		run.Inconclusive("fixture: the two reference profiles are identical")
	}

	type hist struct {
		kind string
		k    int
		k2   int
		v    int
	}
	var hists []hist
	total := fx.lenA
	ks := []int{0, 1, 63, 64, 65, 100, 4000, 4030, 4031, 4032, 4095, 4096, 4097, 8191, 8192, 8193, total - 1, total}
	for k := 4096; k < total; k += 4096 {
		if run.Thorough() || (k/4096)%4 == 1 {
			ks = append(ks, k-65, k, k+1)
		}
	}
	r0 := caseRand(run, 0)
	for i := 0; i < run.N(60, 800); i++ {
		ks = append(ks, r0.Intn(total+1))
	}
	for _, k := range ks {
		if k < 0 || k > total {
			continue
		}
		hists = append(hists, hist{kind: "kill-while-writing", k: k})
	}
	for _, k := range []int{0, 1, 4096, 5000, 20000, total / 2, total - 1, total} {
		hists = append(hists, hist{kind: "tool-exits-1-after-k-bytes", k: k}, hist{kind: "tool-killed-after-k-bytes", k: k})
	}
	// the same interruptions for binaries with long file names (cache file names are derived from them; NAME_MAX is 255)
	for _, nl := range []int{1, 64, 200, 228, 229, 230, 231, 232, 235, 240, 243, 244, 245, 246, 250, 255} {
		for _, k := range []int{100, 8192, total / 2} {
			hists = append(hists, hist{kind: "kill-while-writing-long-name", k: k, k2: nl})
		}
		hists = append(hists, hist{kind: "tool-exits-1-long-name", k: 20000, k2: nl})
	}
	hists = append(hists, hist{kind: "tool-exits-1-before-output"}, hist{kind: "tool-exits-1-after-all-output"}, hist{kind: "tool-absent"}, hist{kind: "control-no-fault"},
		hist{kind: "binary-replaced"}, hist{kind: "binary-replaced-after-interrupted-run", k: 8192},
		// the new binary at the path is older than the cache (moved into place, copied with its time stamp, a rollback)
		hist{kind: "binary-replaced-by-an-older-file", k: 3600}, hist{kind: "binary-replaced-by-an-older-file", k: 1}, hist{kind: "binary-replaced-by-an-older-file", k: 86400 * 400},
		hist{kind: "binary-replaced-by-a-file-of-the-same-time", k: 0}, hist{kind: "binary-replaced-by-a-file-from-the-future", k: -86400})
	for k := 1; k <= run.N(24, 80); k++ {
		hists = append(hists, hist{kind: "enospc-at-write", k: k})
	}
	for k := 1; k <= run.N(6, 40); k++ {
		hists = append(hists, hist{kind: "eio-while-hashing", k: k})
	}
	// the binary at the same path is replaced after a normal run, and the run on the new binary cannot read it completely
	// while hashing (EIO, or a premature end of file, at its k-th read): the old binary's cache must not be taken for it
	for k := 1; k <= run.N(6, 40); k++ {
		hists = append(hists, hist{kind: "binary-replaced-then-eio-while-hashing", k: k}, hist{kind: "binary-replaced-then-short-read-while-hashing", k: k})
	}
	// the same binary under the same base name in another directory, profiled after a run on the first path was interrupted
	// (its leftovers - temporary files with a valid header - lie in the shared cache directory) or completed
	for _, k := range []int{100, 4096, 5000, 8192, 20000, total / 2, total - 100} {
		hists = append(hists, hist{kind: "same-name-in-another-directory-after-interrupted-run", k: k})
	}
	hists = append(hists, hist{kind: "same-name-in-another-directory-after-complete-run"}, hist{kind: "other-binary-same-name-in-another-directory-after-complete-run"})
	for i := 0; i < run.N(6, 200); i++ {
		hists = append(hists, hist{kind: "two-interruptions", k: r0.Intn(total + 1), k2: r0.Intn(total + 1)})
	}
	// crash points at system-call granularity: the process dies on entering its n-th write/rename/... (strace delivers
	// SIGKILL there), i.e. right after everything before it took effect - e.g. between the last write and the rename,
	// or between the rename and what follows it
	for n := 1; n <= run.N(140, 400); n++ {
		hists = append(hists, hist{kind: "crash-on-entering-nth-write-or-rename", k: n})
	}
	// the same crash points in a run on a binary that has replaced, at the same path, the one an earlier complete run was
	// made for: whatever that earlier run left in the cache directory is there when the run on the new binary dies
	for n := 1; n <= run.N(140, 400); n++ {
		hists = append(hists, hist{kind: "binary-replaced-then-crash-on-entering-nth-write-or-rename", k: n})
	}
	// resource limits: the profiler's file size limit stops the cache write (SIGXFSZ or EFBIG) at K bytes; few descriptors
	for _, k := range []int{1, 64, 100, 4096, 10000, 65536, 100000, 200000, total - 10, total + 10} {
		hists = append(hists, hist{kind: "file-size-limit", k: k})
	}
	for _, k := range []int{3, 4, 5, 6, 7, 8, 9, 10, 12, 16} {
		hists = append(hists, hist{kind: "descriptor-limit", k: k})
	}
	// the same with a disassembler that, like the real `go tool objdump`, ignores failures of its own writes and exits 0
	for _, k := range []int{64, 100, 4096, 10000, 65536, 100000, 200000, total - 10} {
		hists = append(hists, hist{kind: "file-size-limit-lenient-tool", k: k})
	}
	for _, k := range []int{1, 2, 3, 5, 8, 13, 21, 34} {
		hists = append(hists, hist{kind: "enospc-everywhere-lenient-tool", k: k})
	}
	// a second run that overlaps a first one which is still writing: it must not reuse what is there so far
	for _, k := range []int{0, 100, 4096, 8192, 20000, total / 2, total - 100} {
		hists = append(hists, hist{kind: "overlapping-run", k: k})
	}
	for i := 0; i < run.N(4, 100); i++ {
		hists = append(hists, hist{kind: "overlapping-run", k: r0.Intn(total + 1)})
	}

	// two runs on the same binary interleaved at chosen points of their disassemblers' output: run A pauses after k bytes,
	// run B is started and pauses after k2 bytes, then they are released (or one fails / is killed) in a chosen order
	pairs := [][2]int{{20000, 100}, {20000, 8192}, {total / 2, total/2 - 30000}, {8192, 20000}, {100, 100}, {4096, 0}, {total - 100, 5000}, {65536, 40000}}
	for i := 0; i < run.N(4, 60); i++ {
		a := r0.Intn(total + 1)
		pairs = append(pairs, [2]int{a, r0.Intn(a + 1)}, [2]int{r0.Intn(a + 1), a})
	}
	nv := 0
	for _, pr := range pairs {
		for v := 0; v < 12; v++ {
			if run.Thorough() || (nv%12 == v) || v == 2 || v == 5 {
				hists = append(hists, hist{kind: "interleaved-runs", k: pr[0], k2: pr[1], v: v})
			}
		}
		nv++
	}

	// the cache holds the complete dump of an earlier build; two runs on the rebuilt binary overlap and the first of them
	// fails (its disassembler exits 1, or it is killed) while the second one is under way or waits for it
	for i, pr := range [][2]int{{8192, 100}, {20000, 8192}, {100, 20000}, {total / 2, 4096}, {4096, 0}, {65536, 40000}} {
		hists = append(hists, hist{kind: "binary-replaced-then-overlapping-runs-first-fails", k: pr[0], k2: pr[1], v: i % 2})
	}

	var mu sync.Mutex
	outcomes := map[string]int64{}
	cacheLens := map[int64]bool{}
	byKind := map[string]int64{}
	distinct := map[string]bool{}
	vlib.Parallel(len(hists), func(i int) {
		h := hists[i]
		th, err := vlib.NewToolHome()
		if err != nil {
			run.Inconclusive(err.Error())
			return
		}
		defer th.Remove()
		target := filepath.Join(th.Dir, "target")
		if strings.HasSuffix(h.kind, "-long-name") {
			target = filepath.Join(th.Dir, strings.Repeat("n", h.k2))
		}
		copyFile(target, fx.binA)
		var steps []string
		henv := vlib.HostileEnvs[i%len(vlib.HostileEnvs)]
		step := func(tr vlib.ToolRun, what string) *vlib.ToolResult {
			tr.Env = henv
			res, err := th.Run(tr)
			if err != nil {
				run.Inconclusive("cannot run profiler: " + err.Error())
				return nil
			}
			steps = append(steps, fmt.Sprintf("%s -> exit=%d signaled=%v killed_by_harness=%v cache=%v", what, res.ExitCode, res.Signaled, res.Killed, th.CacheFiles()))
			return res
		}
		wantProfile := coldA
		finalListing := fx.listA
		switch h.kind {
		case "kill-while-writing":
			res := step(vlib.ToolRun{Argv: argv(target), FakeMode: "block", Listing: fx.listA, K: h.k, KillAfter: true}, fmt.Sprintf("run 1: disassembler emits %d bytes and blocks, profiler SIGKILLed", h.k))
			if res == nil {
				return
			}
			if !res.Killed {
				run.SoftInconclusive(fmt.Sprintf("kill history: the tool never signalled (k=%d): %s", h.k, tail(res.Stderr, 200)))
				return
			}
			mu.Lock()
			for _, n := range res.CacheAtKill {
				cacheLens[n] = true
			}
			mu.Unlock()
			run.Count("real_kills", 1)
		case "overlapping-run":
			var overlap *vlib.ToolResult
			res := step(vlib.ToolRun{Argv: argv(target), FakeMode: "block", Listing: fx.listA, K: h.k, KillAfter: true, WhileBlocked: func() {
				// second profiler run on the same binary while the first one's disassembler is blocked after k bytes;
				// it gets a working disassembler (own environment)
				overlap, _ = th.Run(vlib.ToolRun{Argv: argv(target), FakeMode: "emit", Listing: fx.listA})
			}}, fmt.Sprintf("run 1: disassembler emits %d bytes and blocks; a second run overlaps it; run 1 is then SIGKILLed", h.k))
			if res == nil || !res.Killed || overlap == nil {
				run.SoftInconclusive("overlap history: the tool never signalled")
				return
			}
			run.Count("real_kills", 1)
			run.Count("overlapping_runs", 1)
			if overlap.ExitCode == 0 && !overlap.Signaled && overlap.Stdout != coldA {
				run.Violation("fewer-syscalls:overlapping-run", fmt.Sprintf("a run that overlaps another run which has written %d bytes of the dump so far exits 0 with a profile of %d syscalls; a cold cache gives %d", h.k, len(profileNames(overlap.Stdout)), len(profileNames(coldA))),
					map[string]any{"check": "C17", "history": h.kind, "k": h.k, "steps": steps})
				return
			}
		case "interleaved-runs":
			// v: how B ends (0 exits 0, 1 tool exits 1, 2 killed) x who is released first (A, B) x how A ends (exits 0, tool exits 1)
			endB, bFirst, endA := h.v%3, (h.v/3)%2 == 1, (h.v/6)%2
			a, err := th.StartPaused(vlib.ToolRun{Argv: argv(target), Listing: fx.listA, K: h.k, Exit: endA, Env: henv})
			if err != nil {
				run.Inconclusive("cannot run profiler: " + err.Error())
				return
			}
			if !a.WaitReady(30 * time.Second) {
				a.Kill()
				a.Wait(5 * time.Second)
				run.SoftInconclusive("interleaved history: run A never paused")
				return
			}
			bexit := 0
			if endB == 1 {
				bexit = 1
			}
			b, err := th.StartPaused(vlib.ToolRun{Argv: argv(target), Listing: fx.listA, K: h.k2, Exit: bexit, Env: henv})
			if err != nil {
				a.Kill()
				a.Wait(5 * time.Second)
				run.Inconclusive("cannot run profiler: " + err.Error())
				return
			}
			// an implementation may serialise overlapping runs (a lock): run B then reaches its disassembler only after run A
			// has ended. That is as right as running side by side: A is finished first and B is waited for afterwards
			bPaused := b.WaitReady(6 * time.Second)
			finish := func(name string, p *vlib.PausedRun, kill bool, exit int) bool {
				if kill {
					p.Kill()
				} else {
					p.Release()
				}
				res := p.Wait(60 * time.Second)
				steps = append(steps, fmt.Sprintf("run %s ends (killed=%v, disassembler exit status %d) -> exit=%d signaled=%v cache=%v", name, kill, exit, res.ExitCode, res.Signaled, th.CacheFiles()))
				if res.TimedOut {
					run.SoftInconclusive("interleaved history: run " + name + " timed out")
					return false
				}
				if !kill && exit == 0 && res.ExitCode == 0 && !res.Signaled && res.Stdout != coldA {
					run.Violation("fewer-syscalls:interleaved-runs", fmt.Sprintf("run %s of two interleaved runs on one binary (A paused after %d bytes, B after %d, variant %d) exits 0 with a profile of %d syscalls; a cold cache gives %d", name, h.k, h.k2, h.v, len(profileNames(res.Stdout)), len(profileNames(coldA))),
						map[string]any{"check": "C17", "history": h.kind, "k": h.k, "k2": h.k2, "v": h.v, "steps": steps})
					return false
				}
				return true
			}
			steps = append(steps, fmt.Sprintf("run A: disassembler pauses after %d bytes; run B started on the same binary: disassembler pauses after %d bytes (paused=%v); cache=%v", h.k, h.k2, bPaused, th.CacheFiles()))
			ok := true
			if !bPaused {
				run.Count("interleaved_pairs_in_which_the_second_run_waited_for_the_first", 1)
				ok = finish("A", a, false, endA)
				b.WaitReady(30 * time.Second)
				ok = finish("B", b, endB == 2, bexit) && ok
			} else if bFirst {
				ok = finish("B", b, endB == 2, bexit)
				ok = finish("A", a, false, endA) && ok
			} else {
				ok = finish("A", a, false, endA)
				ok = finish("B", b, endB == 2, bexit) && ok
			}
			if !ok {
				return
			}
			run.Count("interleaved_run_pairs", 1)
			if endB == 2 {
				run.Count("real_kills", 1)
			}
		case "binary-replaced-then-overlapping-runs-first-fails":
			step(vlib.ToolRun{Argv: argv(target), FakeMode: "emit", Listing: fx.listA}, "run 1: normal, binary A")
			copyFile(target, fx.binB)
			wantProfile, finalListing = coldB, fx.listB
			steps = append(steps, "binary at the same path replaced by B")
			a, err := th.StartPaused(vlib.ToolRun{Argv: argv(target), Listing: fx.listB, K: h.k, Exit: 1, Env: henv})
			if err != nil {
				run.Inconclusive("cannot run profiler: " + err.Error())
				return
			}
			if !a.WaitReady(30 * time.Second) {
				a.Kill()
				a.Wait(5 * time.Second)
				run.SoftInconclusive("overlap-after-replacement history: run A never paused")
				return
			}
			b, err := th.StartPaused(vlib.ToolRun{Argv: argv(target), Listing: fx.listB, K: h.k2, Exit: 0, Env: henv})
			if err != nil {
				a.Kill()
				a.Wait(5 * time.Second)
				run.Inconclusive("cannot run profiler: " + err.Error())
				return
			}
			bPaused := b.WaitReady(6 * time.Second) // false: B waits for A (a serialising implementation) - as right
			if h.v == 1 {
				a.Kill()
			} else {
				a.Release() // its disassembler prints the rest and exits 1
			}
			ra := a.Wait(60 * time.Second)
			steps = append(steps, fmt.Sprintf("run A on B (disassembler paused after %d bytes, then %s) -> exit=%d signaled=%v; run B on B had reached its disassembler: %v; cache=%v", h.k, []string{"exits 1", "profiler killed"}[h.v], ra.ExitCode, ra.Signaled, bPaused, th.CacheFiles()))
			if !bPaused {
				b.WaitReady(30 * time.Second)
			}
			b.Release()
			rb := b.Wait(60 * time.Second)
			steps = append(steps, fmt.Sprintf("run B on B ends -> exit=%d signaled=%v cache=%v", rb.ExitCode, rb.Signaled, th.CacheFiles()))
			if ra.TimedOut || rb.TimedOut {
				run.SoftInconclusive("overlap-after-replacement history: a run timed out")
				return
			}
			run.Count("overlapping_runs_after_binary_replacement", 1)
			if rb.ExitCode == 0 && !rb.Signaled && rb.Stdout != coldB {
				run.Violation("other-binarys-cache-trusted:"+h.kind, fmt.Sprintf("history '%s' (k=%d, k2=%d, first run %s): the second of two overlapping runs on the replaced binary exits 0 with a profile of %d syscalls; a cold cache gives %d for this binary (and %d for the binary that was there before)", h.kind, h.k, h.k2, []string{"fails", "is killed"}[h.v], len(profileNames(rb.Stdout)), len(profileNames(coldB)), len(profileNames(coldA))),
					map[string]any{"check": "C17", "history": h.kind, "k": h.k, "k2": h.k2, "v": h.v, "steps": steps, "stderr_tail": tail(rb.Stderr, 600)})
				return
			}
		case "kill-while-writing-long-name":
			res := step(vlib.ToolRun{Argv: argv(target), FakeMode: "block", Listing: fx.listA, K: h.k, KillAfter: true, Timeout: 20 * time.Second}, fmt.Sprintf("run 1: binary name of %d characters, disassembler emits %d bytes and blocks, profiler SIGKILLed", h.k2, h.k))
			if res == nil {
				return
			}
			if res.Killed {
				run.Count("real_kills", 1)
			} // otherwise the profiler ended by itself (e.g. file name too long): nothing was interrupted
		case "tool-exits-1-long-name":
			step(vlib.ToolRun{Argv: argv(target), FakeMode: "fail-partial", Listing: fx.listA, K: h.k}, fmt.Sprintf("run 1: binary name of %d characters, disassembler prints %d bytes and exits 1", h.k2, h.k))
		case "two-interruptions":
			for _, k := range []int{h.k, h.k2} {
				res := step(vlib.ToolRun{Argv: argv(target), FakeMode: "block", Listing: fx.listA, K: k, KillAfter: true}, fmt.Sprintf("interrupted run: %d bytes then SIGKILL", k))
				if res == nil || !res.Killed {
					run.SoftInconclusive("kill history: the tool never signalled")
					return
				}
				run.Count("real_kills", 1)
			}
		case "tool-exits-1-after-k-bytes":
			step(vlib.ToolRun{Argv: argv(target), FakeMode: "fail-partial", Listing: fx.listA, K: h.k}, fmt.Sprintf("run 1: disassembler prints %d bytes and exits 1", h.k))
		case "tool-killed-after-k-bytes":
			step(vlib.ToolRun{Argv: argv(target), FakeMode: "signal-partial", Listing: fx.listA, K: h.k}, fmt.Sprintf("run 1: disassembler prints %d bytes and dies by SIGKILL", h.k))
		case "tool-exits-1-before-output":
			step(vlib.ToolRun{Argv: argv(target), FakeMode: "fail-before", Listing: fx.listA}, "run 1: disassembler exits 1 at once")
		case "tool-exits-1-after-all-output":
			step(vlib.ToolRun{Argv: argv(target), FakeMode: "fail-after", Listing: fx.listA}, "run 1: disassembler prints everything and exits 1")
		case "tool-absent":
			step(vlib.ToolRun{Argv: argv(target), FakeMode: ""}, "run 1: no `go` in PATH")
		case "control-no-fault":
			step(vlib.ToolRun{Argv: argv(target), FakeMode: "emit", Listing: fx.listA}, "run 1: normal")
		case "binary-replaced":
			step(vlib.ToolRun{Argv: argv(target), FakeMode: "emit", Listing: fx.listA}, "run 1: normal, binary A")
			copyFile(target, fx.binB)
			wantProfile, finalListing = coldB, fx.listB
			steps = append(steps, "binary at the same path replaced by B")
		case "binary-replaced-by-an-older-file", "binary-replaced-by-a-file-of-the-same-time", "binary-replaced-by-a-file-from-the-future":
			old := time.Now().Add(-2 * time.Hour)
			os.Chtimes(target, old, old) // binary A has some age
			step(vlib.ToolRun{Argv: argv(target), FakeMode: "emit", Listing: fx.listA}, "run 1: normal, binary A")
			// B is prepared next to the path and moved over it: its time stamp is what it was given
			tmpB := target + ".new"
			copyFile(tmpB, fx.binB)
			stamp := old
			if h.kind != "binary-replaced-by-a-file-of-the-same-time" {
				stamp = time.Now().Add(-time.Duration(h.k) * time.Second)
			}
			os.Chtimes(tmpB, stamp, stamp)
			os.Rename(tmpB, target)
			wantProfile, finalListing = coldB, fx.listB
			steps = append(steps, fmt.Sprintf("binary at the same path replaced (rename) by B, whose modification time is %s", stamp.Format(time.RFC3339)))
		case "binary-replaced-after-interrupted-run":
			res := step(vlib.ToolRun{Argv: argv(target), FakeMode: "block", Listing: fx.listA, K: h.k, KillAfter: true}, "run 1: binary A, interrupted")
			if res == nil || !res.Killed {
				run.SoftInconclusive("kill history: the tool never signalled")
				return
			}
			copyFile(target, fx.binB)
			wantProfile, finalListing = coldB, fx.listB
		case "binary-replaced-then-eio-while-hashing", "binary-replaced-then-short-read-while-hashing":
			step(vlib.ToolRun{Argv: argv(target), FakeMode: "emit", Listing: fx.listA}, "run 1: normal, binary A")
			copyFile(target, fx.binB)
			wantProfile, finalListing = coldB, fx.listB
			steps = append(steps, "binary at the same path replaced by B")
			inj := fmt.Sprintf("inject=read:error=EIO:when=%d", h.k)
			if h.kind == "binary-replaced-then-short-read-while-hashing" {
				inj = fmt.Sprintf("inject=read:retval=0:when=%d", h.k)
			}
			res := step(vlib.ToolRun{Argv: argv(target), FakeMode: "emit", Listing: fx.listB, Strace: []string{"-P", target, "-e", "trace=read", "-e", inj}},
				fmt.Sprintf("run 2: binary B, read #%d of the binary fails (%s); the disassembler works", h.k, inj))
			if res == nil {
				return
			}
			// only reads of the binary are disturbed: a run that reports success must print B's profile
			if res.ExitCode == 0 && !res.Signaled && !res.TimedOut && res.Stdout != coldB {
				run.Violation("other-binarys-cache-trusted:"+h.kind, fmt.Sprintf("history '%s' (k=%d): the run on the replaced binary exits 0 with a profile of %d syscalls; a cold cache gives %d for this binary (and %d for the binary that was there before)", h.kind, h.k, len(profileNames(res.Stdout)), len(profileNames(coldB)), len(profileNames(coldA))),
					map[string]any{"check": "C17", "history": h.kind, "k": h.k, "steps": steps, "stderr_tail": tail(res.Stderr, 600)})
				return
			}
		case "same-name-in-another-directory-after-interrupted-run", "same-name-in-another-directory-after-complete-run", "other-binary-same-name-in-another-directory-after-complete-run":
			dirA, dirB := filepath.Join(th.Dir, "a"), filepath.Join(th.Dir, "b")
			os.MkdirAll(dirA, 0o755)
			os.MkdirAll(dirB, 0o755)
			pathA, pathB := filepath.Join(dirA, "app"), filepath.Join(dirB, "app")
			copyFile(pathA, fx.binA)
			copyFile(pathB, fx.binA)
			if h.kind == "same-name-in-another-directory-after-interrupted-run" {
				res := step(vlib.ToolRun{Argv: argv(pathA), FakeMode: "block", Listing: fx.listA, K: h.k, KillAfter: true}, fmt.Sprintf("run 1 on %s: disassembler emits %d bytes and blocks, profiler SIGKILLed", pathA, h.k))
				if res == nil || !res.Killed {
					run.SoftInconclusive("kill history: the tool never signalled")
					return
				}
				run.Count("real_kills", 1)
			} else {
				step(vlib.ToolRun{Argv: argv(pathA), FakeMode: "emit", Listing: fx.listA}, "run 1 on "+pathA+": normal")
			}
			if h.kind == "other-binary-same-name-in-another-directory-after-complete-run" {
				copyFile(pathB, fx.binB)
				wantProfile, finalListing = coldB, fx.listB
			}
			target = pathB
			steps = append(steps, "the following run profiles "+pathB)
		case "crash-on-entering-nth-write-or-rename":
			set := "write,rename,renameat,renameat2,fsync,ftruncate,unlink,unlinkat"
			step(vlib.ToolRun{Argv: argv(target), FakeMode: "emit", Listing: fx.listA, Strace: []string{"-f", "-e", "trace=" + set, "-e", fmt.Sprintf("inject=%s:signal=KILL:when=%d", set, h.k)}},
				fmt.Sprintf("run 1: SIGKILL on entering the %d-th write/rename/unlink/fsync of a thread", h.k))
			run.Count("syscall_granular_crash_points", 1)
		case "binary-replaced-then-crash-on-entering-nth-write-or-rename":
			step(vlib.ToolRun{Argv: argv(target), FakeMode: "emit", Listing: fx.listA}, "run 1: normal, binary A")
			copyFile(target, fx.binB)
			wantProfile, finalListing = coldB, fx.listB
			steps = append(steps, "binary at the same path replaced by B")
			set := "write,rename,renameat,renameat2,fsync,ftruncate,unlink,unlinkat"
			step(vlib.ToolRun{Argv: argv(target), FakeMode: "emit", Listing: fx.listB, Strace: []string{"-f", "-e", "trace=" + set, "-e", fmt.Sprintf("inject=%s:signal=KILL:when=%d", set, h.k)}},
				fmt.Sprintf("run 2 on B: SIGKILL on entering the %d-th write/rename/unlink/fsync of a thread", h.k))
			run.Count("syscall_granular_crash_points_after_binary_replacement", 1)
		case "file-size-limit":
			step(vlib.ToolRun{Argv: append([]string{"/usr/bin/prlimit", fmt.Sprintf("--fsize=%d", h.k)}, argv(target)...), FakeMode: "emit", Listing: fx.listA}, fmt.Sprintf("run 1: RLIMIT_FSIZE=%d bytes", h.k))
		case "file-size-limit-lenient-tool":
			step(vlib.ToolRun{Argv: append([]string{"/usr/bin/prlimit", fmt.Sprintf("--fsize=%d", h.k)}, argv(target)...), FakeMode: "emit-lenient", Listing: fx.listA}, fmt.Sprintf("run 1: RLIMIT_FSIZE=%d bytes, the disassembler ignores its write errors", h.k))
		case "enospc-everywhere-lenient-tool":
			step(vlib.ToolRun{Argv: argv(target), FakeMode: "emit-lenient", Listing: fx.listA, Strace: []string{"-f", "-e", "trace=write", "-e", fmt.Sprintf("inject=write:error=ENOSPC:when=%d+", h.k)}},
				fmt.Sprintf("run 1: every write of every process (profiler and disassembler) from its #%d on fails with ENOSPC; the disassembler ignores it", h.k))
		case "descriptor-limit":
			step(vlib.ToolRun{Argv: append([]string{"/usr/bin/prlimit", fmt.Sprintf("--nofile=%d", h.k)}, argv(target)...), FakeMode: "emit", Listing: fx.listA}, fmt.Sprintf("run 1: RLIMIT_NOFILE=%d", h.k))
		case "enospc-at-write":
			step(vlib.ToolRun{Argv: argv(target), FakeMode: "emit", Listing: fx.listA, Strace: []string{"-e", "trace=write", "-e", fmt.Sprintf("inject=write:error=ENOSPC:when=%d+", h.k)}},
				fmt.Sprintf("run 1: every write of the profiler from its #%d on fails with ENOSPC", h.k))
		case "eio-while-hashing":
			step(vlib.ToolRun{Argv: argv(target), FakeMode: "emit", Listing: fx.listA, Strace: []string{"-P", target, "-e", "trace=read", "-e", fmt.Sprintf("inject=read:error=EIO:when=%d", h.k)}},
				fmt.Sprintf("run 1: read #%d of the binary fails with EIO", h.k))
		}
		// the next, normal run
		res := step(vlib.ToolRun{Argv: argv(target), FakeMode: "emit", Listing: finalListing}, "normal run")
		if res == nil {
			return
		}
		if res.TimedOut {
			run.SoftInconclusive("normal run timed out")
			return
		}
		run.Count("histories", 1)
		outcome := "same-profile"
		switch {
		case res.ExitCode != 0 || res.Signaled:
			outcome = "error"
		case res.Stdout != wantProfile:
			got, want := profileNames(res.Stdout), profileNames(wantProfile)
			ws := map[string]bool{}
			for _, n := range want {
				ws[n] = true
			}
			subset := len(got) < len(want)
			for _, n := range got {
				if !ws[n] {
					subset = false
				}
			}
			outcome = "different-profile"
			if subset {
				outcome = "fewer-syscalls"
			}
			run.Violation(outcome+":"+h.kind, fmt.Sprintf("history '%s' (k=%d): the normal run after it exits 0 with a profile of %d syscalls; a cold cache gives %d", h.kind, h.k, len(got), len(want)),
				map[string]any{"check": "C17", "history": h.kind, "k": h.k, "k2": h.k2, "v": h.v, "steps": steps, "profile_syscalls": len(got), "cold_cache_syscalls": len(want), "stderr_tail": tail(res.Stderr, 600)})
		}
		mu.Lock()
		outcomes[h.kind+" -> "+outcome]++
		byKind[h.kind]++
		distinct[fmt.Sprint(h.kind, h.k/512, h.k2/4096, h.v)] = true
		mu.Unlock()
		if i == 3 || h.kind == "binary-replaced" {
			run.Sample(3, map[string]any{"history": h.kind, "k": h.k, "steps": steps, "outcome": outcome})
		}
	})
	var lens []int64
	for n := range cacheLens {
		lens = append(lens, n)
	}
	sort.Slice(lens, func(i, j int) bool { return lens[i] < lens[j] })
	if len(lens) > 40 {
		lens = append(lens[:20], lens[len(lens)-20:]...)
	}
	run.Set("histories_by_kind", byKind)
	run.Set("outcome_of_the_following_normal_run", outcomes)
	run.Set("cache_file_lengths_left_by_real_kills", lens)
	run.Set("listing_bytes", total)
	for k, v := range byKind {
		run.Count("kind:"+k, v)
	}
	run.Assume("interruptions are real: the profiler process group is SIGKILLed while the scripted disassembler has emitted k bytes and blocks, so only states the implementation can really leave behind are judged",
		"power-loss reordering of unsynced writes is not modelled (the property speaks of interruption); the fake `go` stands in for `go tool objdump`",
		"a non-zero exit of the following run is allowed by the property")
	if run.Violations() == 0 {
		run.Require("histories", int64(len(hists)*9/10))
		run.Require("real_kills", 15)
		for _, k := range []string{"kill-while-writing", "tool-exits-1-after-k-bytes", "tool-absent", "binary-replaced", "enospc-at-write"} {
			run.Require("kind:"+k, 1)
		}
	}
	run.Finish(run.Counter("histories"), int64(len(distinct)),
		"two- and three-run histories of the built seccomp-profiler in private mount namespaces (own ~/.seccomp-profiler): run 1 interrupted by SIGKILL after the scripted disassembler emitted k bytes (k swept over 0,1,63..65, every 4096-byte flush boundary +-1, end, PRNG), disassembler absent / exiting 1 or killed after k bytes / after everything, SIGKILL on entering the n-th write/rename/unlink of a thread (strace signal injection, n swept), RLIMIT_FSIZE of K bytes and RLIMIT_NOFILE of 3..16, ENOSPC on every write from the K-th on, EIO while hashing, binary replaced, a second run overlapping a first one that is still writing, two runs on one binary interleaved at chosen output offsets with either released first and one failing or killed; then a normal run whose profile must equal the cold-cache profile or fail; distinct = (kind, k/512) cells")
}
