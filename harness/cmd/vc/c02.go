package main

import (
	"encoding/binary"
	"fmt"
	"sync"

	seccomp "github.com/elastic/go-seccomp-bpf"

	"verif/harness/vlib"
)

func init() { checks["C02"] = c02 }

func halves(v uint32) []uint32 {
	low := v & -v
	set := []uint32{0, v - 1, v, v + 1, ^v, v &^ low, v | (^v & -(^v)), 0xffffffff, v ^ 0x80000000}
	seen := map[uint32]bool{}
	var out []uint32
	for _, x := range set {
		if !seen[x] {
			seen[x] = true
			out = append(out, x)
		}
	}
	return out
}

func sign(a, b uint32) int {
	switch {
	case a < b:
		return 0
	case a == b:
		return 1
	}
	return 2
}

func c02() {
	run := vlib.NewRun("C02", "translation_validation")
	_, ts := mustTargets(run)

	type job struct {
		op  seccomp.Operation
		arg uint32
		val uint64
		t   *vlib.Target
		idx int
	}
	var jobs []job
	operands := append([]uint64{}, vlib.BoundaryValues...)
	r0 := caseRand(run, 0)
	for i := 0; i < run.N(100, 1000); i++ {
		operands = append(operands, r0.Uint64(), uint64(r0.Uint32()), uint64(r0.Uint32())<<32)
	}
	for _, op := range vlib.AllOps {
		for arg := uint32(0); arg < 6; arg++ {
			for _, v := range operands {
				jobs = append(jobs, job{op, arg, v, ts[len(jobs)%len(ts)], len(jobs)})
			}
		}
	}

	var mu sync.Mutex
	cells := map[string]bool{}
	perOpOrder := map[string]int64{}

	for _, big := range []bool{false, true} {
		order := binary.ByteOrder(binary.LittleEndian)
		oname := "little"
		if big {
			order, oname = binary.BigEndian, "big"
		}
		restore := seccomp.VerifSetByteOrder(order)
		vlib.Parallel(len(jobs), func(ji int) {
			j := jobs[ji]
			r := caseRand(run, 1+ji)
			name := j.t.Names[(ji*7)%len(j.t.Names)]
			cond := seccomp.Condition{Argument: j.arg, Operation: j.op, Value: j.val}
			action, def := seccomp.Action(vlib.RetErrno), seccomp.Action(vlib.RetAllow)
			if ji%3 == 1 {
				action, def = vlib.RetAllow, vlib.RetKillProcess
			}
			p := &seccomp.Policy{DefaultAction: def, Syscalls: []seccomp.SyscallGroup{{Action: action,
				NamesWithCondtions: []seccomp.NameWithConditions{{Name: name, Conditions: seccomp.ArgumentConditions{cond}}}}}}
			// every fifth entry sits in a context: behind K single-condition entries for other syscalls (K around the sizes
			// at which tables grow) and an earlier single-condition entry for the same syscall on another argument
			var ctxRef *vlib.Ref
			if ji%5 == 2 {
				k := []int{1, 7, 63, 64, 65, 127, 128, 129, 200}[(ji/5)%9]
				var ents []seccomp.NameWithConditions
				first := r.Intn(k)
				for x := 0; x < k; x++ {
					other := j.t.Names[(ji*7+1+x)%len(j.t.Names)]
					if other == name {
						continue
					}
					if x == first {
						ents = append(ents, seccomp.NameWithConditions{Name: name, Conditions: seccomp.ArgumentConditions{{Argument: (j.arg + 1) % 6, Operation: "Equal", Value: 0x5a5a5a5a00000000 | uint64(x)}}})
					}
					ents = append(ents, seccomp.NameWithConditions{Name: other, Conditions: seccomp.ArgumentConditions{{Argument: uint32(x % 6), Operation: vlib.AllOps[x%8], Value: uint64(x)*0x100000001 + 3}}})
				}
				ents = append(ents, p.Syscalls[0].NamesWithCondtions[0])
				// and in front of 0..69 further entries of all sizes: the distance from the judged condition to the group's
				// return sweeps the values around the 8-bit limit
				for x, m := 0, (ji/45)%70; x < m; x++ {
					other := j.t.Names[(ji*7+300+x)%len(j.t.Names)]
					if other == name {
						continue
					}
					ents = append(ents, seccomp.NameWithConditions{Name: other, Conditions: seccomp.ArgumentConditions{{Argument: uint32((x + ji) % 6), Operation: vlib.AllOps[(x+ji/7)%8], Value: uint64(x)*0x100000001 + 5}}})
				}
				p.Syscalls[0].NamesWithCondtions = ents
				run.Count("entries_judged_inside_a_large_group", 1)
			}
			spec := vlib.SpecOf(p, j.t.Name)
			if ji%5 == 2 {
				ctxRef = vlib.NewRef(spec.Policy(), j.t)
			}
			c := vlib.Compile(p, j.t)
			run.Count("policies", 1)
			if !c.OK() {
				run.Count("not_accepted", 1)
				return
			}
			run.Count("programs", 1)
			nr := j.t.Num[name]
			vh, vl := uint32(j.val>>32), uint32(j.val)
			var actual []uint64
			for _, h := range halves(vh) {
				for _, l := range halves(vl) {
					actual = append(actual, uint64(h)<<32|uint64(l))
				}
			}
			for k := 0; k < 8; k++ {
				actual = append(actual, r.Uint64())
			}
			// a matching and a non-matching value, used to fill the other words
			var yes, no uint64
			var haveYes, haveNo bool
			for _, a := range actual {
				if vlib.Holds(cond, a) {
					yes, haveYes = a, true
				} else {
					no, haveNo = a, true
				}
			}
			local := map[string]bool{}
			var n int64
			for _, a := range actual {
				holds := vlib.Holds(cond, a)
				want := vlib.Enc(def)
				if holds {
					want = vlib.Enc(action)
				}
				// the other five arguments and the instruction pointer carry a
				// value with the opposite verdict, then the halves of a swapped
				fills := []uint64{a>>32 | a<<32}
				if holds && haveNo {
					fills = append(fills, no)
				}
				if !holds && haveYes {
					fills = append(fills, yes)
				}
				for _, fill := range fills {
					e := vlib.Event{NR: nr, Arch: j.t.ID, IP: fill}
					for x := range e.Args {
						e.Args[x] = fill
					}
					e.Args[j.arg] = a
					w := e.Words(big)
					tr, err := c.RunBoth(&w, nil, false)
					n++
					want := want
					if ctxRef != nil {
						want, _ = ctxRef.Decide(e)
					}
					if err != nil || tr.Ret != want {
						got := fmt.Sprintf("%#x", tr.Ret)
						if err != nil {
							got = "fault: " + err.Error()
						}
						run.Violation(fmt.Sprintf("%s/%s-endian", j.op, oname),
							fmt.Sprintf("arg%d %s %#x with actual %#x (%s-endian record, other words %#x): filter gives %s, relation says %#x", j.arg, j.op, j.val, a, oname, fill, got, want),
							map[string]any{"check": "C02", "policy": spec, "event": e, "big_endian": big, "expected": want, "observed": got})
						return
					}
				}
				local[fmt.Sprintf("%s/%s/%d%d", j.op, oname, sign(uint32(a>>32), vh), sign(uint32(a), vl))] = true
			}
			run.Count("evaluations", n)
			mu.Lock()
			for k := range local {
				cells[k] = true
			}
			perOpOrder[string(j.op)+"/"+oname] += n
			mu.Unlock()
			if ji%997 == 3 {
				run.Sample(4, map[string]any{"byte_order": oname, "arch": j.t.Name, "syscall": name, "condition": vlib.CondSpec{Arg: j.arg, Op: string(j.op), Val: j.val},
					"actual_values_tried": len(actual), "first_actual": fmt.Sprintf("%#x", actual[0]), "program": vlib.DumpRaw(c.Raw)})
			}
		})
		restore()
	}
	c02KernelTier(run, ts)
	run.Set("evaluations_per_op_and_order", perOpOrder)
	run.Set("relation_cells_hit", len(cells))
	run.Set("relation_cells_possible", 8*2*9)
	run.Set("programs", run.Counter("programs"))
	run.Set("disagreements_checked", run.Counter("evaluations"))
	run.Set("operands", len(operands))
	run.Count("cells", int64(len(cells)))
	run.Assume("the big-endian sweep changes only the package's byte-order variable (hook H2) and the record layout; no big-endian machine is involved",
		"kernel confirmation of the little-endian lowering is part of C08 (amd64 and 386 children)")
	if run.Violations() == 0 {
		run.Require("cells", 8*2*9)
		run.Require("programs", 1000)
		run.Require("kernel:children", 20)
		run.Require("kernel:probes", 1000)
	}
	run.RunSecondaryBuild()
	run.Finish(run.Counter("evaluations"), int64(len(cells)),
		"single-condition single-entry policies for 8 ops x 6 argument positions x boundary+PRNG operands, each evaluated on the hi/lo neighbourhood product of the operand with the other words set to a verdict-flipping value and to the swapped halves, under both byte orders; distinct = (op, byte order, sign(hi compare), sign(lo compare)) cells hit")
}

// c02KernelTier loads single-condition filters into the running kernel
// (little-endian production layout) in amd64 children, where all 64 bits of
// a register reach the filter, and in 386 children, where the high word must
// read as zero.
func c02KernelTier(run *vlib.Run, ts []*vlib.Target) {
	if vlib.SubRun() != "" {
		return
	}
	o, err := vlib.LoadOracles()
	if err != nil {
		run.Inconclusive(err.Error())
		return
	}
	st := &kernelStats{outcomes: map[string]int64{}, perABI: map[string]int64{}, shapes: map[string]bool{}}
	n := run.N(288, 6000)
	vlib.Parallel(n, func(i int) {
		r := caseRand(run, 2000000+i)
		goarch := "amd64"
		if i%3 == 2 {
			goarch = "386"
		}
		t := hostTarget(ts, goarch)
		probes := probeNames[goarch]
		op := vlib.AllOps[i%8]
		arg := uint32((i / 8) % 6)
		val := vlib.BoundaryValues[(i/48)%len(vlib.BoundaryValues)]
		if i >= 48*len(vlib.BoundaryValues) {
			val = r.Uint64()
		}
		if goarch == "386" && i%2 == 0 {
			val &= 0xffffffff
		}
		name := probes[r.Intn(len(probes))]
		cond := seccomp.Condition{Argument: arg, Operation: op, Value: val}
		p := &seccomp.Policy{DefaultAction: vlib.RetAllow, Syscalls: []seccomp.SyscallGroup{{Action: vlib.RetErrno,
			NamesWithCondtions: []seccomp.NameWithConditions{{Name: name, Conditions: seccomp.ArgumentConditions{cond}}}}}}
		cc := &vlib.ChildCase{Policy: vlib.SpecOf(p, t.Name), Flags: 0, NNP: true}
		vh, vl := uint32(val>>32), uint32(val)
		var actual []uint64
		for _, h := range halves(vh) {
			for _, l := range halves(vl) {
				actual = append(actual, uint64(h)<<32|uint64(l))
			}
		}
		for _, a := range actual {
			fill := a>>32 | a<<32
			pr := vlib.Probe{Kind: "syscall", NR: uint64(t.Num[name])}
			for x := range pr.Args {
				pr.Args[x] = fill
			}
			pr.Args[arg] = a
			cc.Probes = append(cc.Probes, pr)
		}
		kc := &kernelCase{goarch: goarch, t: t, cc: cc, desc: fmt.Sprintf("kernel case %d: %s arg%d %s %#x on %s", i, goarch, arg, op, val, name)}
		judgeEnforce(run, o, kc, st, "kernel:")
	})
	for k, v := range st.outcomes {
		run.Count("kernel:outcome:"+k, v)
	}
	run.Set("kernel_children_per_abi", st.perABI)
}
