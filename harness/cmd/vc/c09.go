package main

import (
	"fmt"
	"strconv"
	"strings"
	"sync"
	"time"

	seccomp "github.com/elastic/go-seccomp-bpf"

	"verif/harness/vlib"
)

func init() { checks["C09"] = c09 }

const (
	flagTSync       = 1
	flagLog         = 2
	flagNewListener = 8
	flagUnknown     = 1 << 7
)

// c09Policies builds the policy kinds used in histories for the amd64 host.
func c09Policies(t *vlib.Target) (map[string]vlib.PolicySpec, []uint64) {
	probes := probeNames["amd64"]
	out := map[string]vlib.PolicySpec{}
	var nrs []uint64
	for k, n := range probes {
		out[fmt.Sprintf("valid%d", k)] = vlib.SpecOf(&seccomp.Policy{DefaultAction: vlib.RetAllow, Syscalls: []seccomp.SyscallGroup{{Names: []string{n}, Action: vlib.RetErrno}}}, t.Name)
		nrs = append(nrs, uint64(t.Num[n]))
	}
	out["invalid-name"] = vlib.SpecOf(&seccomp.Policy{DefaultAction: vlib.RetAllow, Syscalls: []seccomp.SyscallGroup{{Names: []string{"getppid", "no_such_syscall"}, Action: vlib.RetErrno}}}, t.Name)
	out["invalid-action"] = vlib.SpecOf(&seccomp.Policy{DefaultAction: 0x12345678, Syscalls: []seccomp.SyscallGroup{{Names: []string{"getppid"}, Action: vlib.RetErrno}}}, t.Name)
	out["no-groups"] = vlib.SpecOf(&seccomp.Policy{DefaultAction: vlib.RetAllow}, t.Name)
	// oversize: more than 4096 instructions, conditions on a probe only
	over := &seccomp.Policy{DefaultAction: vlib.RetAllow, Syscalls: []seccomp.SyscallGroup{{Action: vlib.RetErrno}}}
	for l := 0; l < 30*8; l++ {
		over.Syscalls[0].NamesWithCondtions = append(over.Syscalls[0].NamesWithCondtions, seccomp.NameWithConditions{Name: probes[l/30%len(probes)], Conditions: eqList(uint64(1)<<40+uint64(l*8), 6)})
	}
	out["oversize"] = vlib.SpecOf(over, t.Name)
	// exactly 4096 instructions
	p, _ := exactPolicy(t, 4096, 2)
	for i := range p.Syscalls[0].NamesWithCondtions { // keep it harmless: conditions that need huge argument values
		for k := range p.Syscalls[0].NamesWithCondtions[i].Conditions {
			p.Syscalls[0].NamesWithCondtions[i].Conditions[k].Value |= 1 << 50
		}
	}
	p.Syscalls[0].Action = vlib.RetLog
	out["max4096"] = vlib.SpecOf(p, t.Name)
	// sizes around the points where a 16-bit length field wraps (allow-everything policies: whatever happens is harmless)
	for _, n := range oversizeLengths {
		if q, l := exactSizePolicy(t, n); l == n {
			out[fmt.Sprintf("size%d", n)] = vlib.SpecOf(q, t.Name)
		}
	}
	return out, nrs
}

var oversizeLengths = []int{4097, 65535, 65536, 65537, 131072}

type c09Plan struct {
	inject       []string // strace fault injection: the kernel call fails/returns without attaching anything
	desc         string
	threads      int
	calls        []vlib.LoadCall
	unprivileged bool
	strace       bool
	divergent    bool
	pidns        bool // the child is process 1 of a new PID namespace and thread 0 of the history is its main thread (tid 1)
}

func c09() {
	run := vlib.NewRun("C09", "fault_enumeration")
	_, ts := mustTargets(run)
	t := targetByName(ts, "x86_64")
	pols, probeNrs := c09Policies(t)
	if c := vlib.Compile(pols["max4096"].Policy(), t); !c.OK() || len(c.Raw) != 4096 {
		run.Count("max4096_policy_has_other_length", 1)
		run.Set("max4096_actual_length", len(c.Raw))
	}
	if c := vlib.Compile(pols["oversize"].Policy(), t); !c.OK() || len(c.Raw) <= 4096 {
		run.Inconclusive("harness: oversize policy is not oversize")
	}

	var plans []c09Plan
	// every single-call combination
	// 4 = SPEC_ALLOW, 0x10 = TSYNC_ESRCH (only valid together with TSYNC), 0x19 = TSYNC|NEW_LISTENER|TSYNC_ESRCH
	allFlags := []uint32{0, flagTSync, flagLog, flagTSync | flagLog, flagNewListener, flagUnknown, flagTSync | flagUnknown, 4, flagTSync | 4, 0x10, flagTSync | 0x10, 0x19, flagTSync | flagNewListener}
	for _, unpriv := range []bool{false, true} {
		for _, fl := range allFlags {
			for _, nnp := range []bool{true, false} {
				for _, pk := range []string{"valid0", "invalid-name", "invalid-action", "oversize", "max4096"} {
					plans = append(plans, c09Plan{desc: fmt.Sprintf("single call flags=%#x nnp=%v policy=%s unprivileged=%v", fl, nnp, pk, unpriv), threads: 3,
						calls: []vlib.LoadCall{{Thread: 0, Op: "supported"}, {Thread: 1, Op: "load", Flags: fl, NNP: nnp, Policy: pk}, {Thread: 2, Op: "supported"}}, unprivileged: unpriv})
				}
			}
		}
	}
	// programs whose length does not fit the kernel interface's 16-bit length field (or just does)
	for _, n := range oversizeLengths {
		pk := fmt.Sprintf("size%d", n)
		if _, ok := pols[pk]; !ok {
			run.Count("oversize_policy_of_exact_length_not_built", 1)
			continue
		}
		for ci, fl := range []uint32{0, flagTSync, flagLog} {
			plans = append(plans, c09Plan{desc: fmt.Sprintf("program of exactly %d instructions flags=%#x", n, fl), threads: 2, unprivileged: ci == 2,
				calls: []vlib.LoadCall{{Thread: 1, Op: "load", Flags: fl, NNP: ci != 1, Policy: pk}, {Thread: 0, Op: "load", Flags: 0, NNP: true, Policy: "valid0"}, {Thread: 1, Op: "load", Flags: fl, NNP: true, Policy: pk}}})
		}
	}
	// the divergent-filter pattern and variations
	for _, unpriv := range []bool{false, true} {
		for _, fl2 := range []uint32{flagTSync, flagTSync | flagLog, flagTSync | 4, flagTSync | 0x10, 0x19, flagTSync | flagLog | 4} {
			for _, first := range []uint32{0, flagLog} {
				plans = append(plans, c09Plan{desc: fmt.Sprintf("divergent: A loads flags=%#x, B loads flags=%#x unprivileged=%v", first, fl2, unpriv), threads: 3, divergent: true, unprivileged: unpriv,
					calls: []vlib.LoadCall{{Thread: 0, Op: "load", Flags: first, NNP: true, Policy: "valid0"}, {Thread: 1, Op: "load", Flags: fl2, NNP: true, Policy: "valid1"},
						{Thread: 0, Op: "load", Flags: fl2, NNP: true, Policy: "valid2"}, {Thread: 2, Op: "supported"}}})
			}
		}
	}
	// the same pattern in a process that is number 1 of its PID namespace (a container's init): the thread the kernel names
	// when it refuses the synchronisation is then thread 1
	for _, fl2 := range []uint32{flagTSync, flagTSync | flagLog, flagTSync | 4, flagTSync | 0x10} {
		plans = append(plans, c09Plan{desc: fmt.Sprintf("divergent in a PID namespace: main thread (tid 1) loads flags=0, B loads flags=%#x", fl2), threads: 3, divergent: true, pidns: true,
			calls: []vlib.LoadCall{{Thread: 0, Op: "load", Flags: 0, NNP: true, Policy: "valid0"}, {Thread: 1, Op: "load", Flags: fl2, NNP: true, Policy: "valid1"},
				{Thread: 2, Op: "load", Flags: fl2, NNP: true, Policy: "valid2"}, {Thread: 0, Op: "load", Flags: fl2, NNP: true, Policy: "valid3"}, {Thread: 1, Op: "supported"}}})
	}
	// tsync first, then everything is an ancestor: later tsync loads succeed
	plans = append(plans, c09Plan{desc: "tsync chain", threads: 4, calls: []vlib.LoadCall{{Thread: 0, Op: "load", Flags: flagTSync, NNP: true, Policy: "valid0"},
		{Thread: 1, Op: "load", Flags: flagTSync, NNP: false, Policy: "valid1"}, {Thread: 2, Op: "load", Flags: 0, NNP: false, Policy: "valid2"}, {Thread: 3, Op: "load", Flags: flagTSync, NNP: false, Policy: "valid3"},
		{Thread: 2, Op: "load", Flags: flagTSync, NNP: false, Policy: "valid4"}}})
	// the same filter (same policy, same flags) loaded again, from the same and from other threads: every nil result
	// must mean a filter of its own on the calling thread
	for _, fl := range []uint32{0, flagLog, flagTSync} {
		for _, nnp := range []bool{true, false} {
			plans = append(plans, c09Plan{desc: fmt.Sprintf("identical filter loaded repeatedly flags=%#x nnp=%v", fl, nnp), threads: 4, calls: []vlib.LoadCall{
				{Thread: 0, Op: "load", Flags: fl, NNP: nnp, Policy: "valid0"}, {Thread: 1, Op: "load", Flags: fl, NNP: nnp, Policy: "valid0"},
				{Thread: 1, Op: "load", Flags: fl, NNP: nnp, Policy: "valid0"}, {Thread: 2, Op: "load", Flags: fl, NNP: nnp, Policy: "valid1"},
				{Thread: 3, Op: "load", Flags: fl, NNP: nnp, Policy: "valid0"}, {Thread: 0, Op: "load", Flags: fl, NNP: nnp, Policy: "valid1"}}})
		}
	}
	// injected kernel answers (strace): every way seccomp(2)/prctl(2) can decline must surface as an error, with nothing attached
	for _, errno := range []string{"EINVAL", "EACCES", "ENOMEM", "EFAULT", "ESRCH", "EBUSY", "ENOSYS", "EPERM", "EAGAIN", "EINTR"} {
		for _, fl := range []uint32{0, flagTSync, flagTSync | flagLog} {
			plans = append(plans, c09Plan{desc: fmt.Sprintf("injected seccomp(2) failure %s flags=%#x", errno, fl), threads: 2, strace: true, inject: []string{"-e", "inject=seccomp:error=" + errno},
				calls: []vlib.LoadCall{{Thread: 1, Op: "load", Flags: fl, NNP: true, Policy: "valid0"}, {Thread: 0, Op: "load", Flags: fl, NNP: false, Policy: "valid1"}}})
		}
	}
	// transient failures: only the first seccomp(2) call of every thread is answered by the injector; what follows is the
	// real kernel - in particular a thread-sync load that the kernel refuses because another thread carries a different
	// filter (whether or not the library restarts an interrupted call, nil must mean attached)
	for _, errno := range []string{"EINTR", "EAGAIN", "ENOMEM", "EBUSY"} {
		for _, fl := range []uint32{flagTSync, flagTSync | flagLog, flagTSync | 0x10} {
			plans = append(plans, c09Plan{desc: fmt.Sprintf("transient %s on each thread's first seccomp(2) call, then a refused thread-sync flags=%#x", errno, fl), threads: 3, strace: true, divergent: true,
				inject: []string{"-e", "inject=seccomp:error=" + errno + ":when=1"},
				calls: []vlib.LoadCall{{Thread: 0, Op: "load", Flags: 0, NNP: true, Policy: "valid0"}, {Thread: 0, Op: "load", Flags: 0, NNP: true, Policy: "valid0"},
					{Thread: 1, Op: "load", Flags: fl, NNP: true, Policy: "valid1"}, {Thread: 1, Op: "load", Flags: fl, NNP: true, Policy: "valid1"},
					{Thread: 2, Op: "load", Flags: flagLog, NNP: false, Policy: "valid2"}, {Thread: 2, Op: "load", Flags: fl, NNP: false, Policy: "valid3"}}})
		}
	}
	for _, fl := range []uint32{flagTSync, flagTSync | flagLog, flagTSync | 4} {
		plans = append(plans, c09Plan{desc: fmt.Sprintf("injected positive seccomp(2) return (thread id) flags=%#x", fl), threads: 2, strace: true, inject: []string{"-e", "inject=seccomp:retval=4242"},
			calls: []vlib.LoadCall{{Thread: 1, Op: "load", Flags: fl, NNP: true, Policy: "valid0"}}})
	}
	// every magnitude a thread id can have (pid_max goes up to 2^22 on 64-bit kernels; the return value is a long)
	for k, tid := range []int64{1, 2, 299, 32767, 32768, 32769, 65535, 65536, 70000, 1 << 20, 4194303, 4194304, 4194305, 1 << 24, 1<<30 + 7, 1<<31 - 1} {
		fl := []uint32{flagTSync, flagTSync | flagLog, flagTSync | 4}[k%3]
		plans = append(plans, c09Plan{desc: fmt.Sprintf("injected positive seccomp(2) return %d (thread id) flags=%#x", tid, fl), threads: 2, strace: true, inject: []string{"-e", fmt.Sprintf("inject=seccomp:retval=%d", tid)},
			calls: []vlib.LoadCall{{Thread: 1, Op: "load", Flags: fl, NNP: true, Policy: "valid0"}, {Thread: 0, Op: "load", Flags: fl, NNP: false, Policy: "valid1"}}})
	}
	for _, errno := range []string{"EINVAL", "EPERM", "ENOSYS", "EACCES"} {
		plans = append(plans, c09Plan{desc: "injected prctl(2) failure " + errno, threads: 2, strace: true, inject: []string{"-e", "inject=prctl:error=" + errno},
			calls: []vlib.LoadCall{{Thread: 1, Op: "load", Flags: 0, NNP: true, Policy: "valid0"}, {Thread: 0, Op: "load", Flags: flagTSync, NNP: true, Policy: "valid1"}}})
	}
	nCat := len(plans)
	// PRNG histories
	nRandom := run.N(240, 8000)
	for i := 0; i < nRandom; i++ {
		r := caseRand(run, i)
		pl := c09Plan{threads: 2 + r.Intn(4), unprivileged: r.Intn(3) == 0}
		n := 1 + r.Intn(6)
		validUsed := 0
		for k := 0; k < n; k++ {
			call := vlib.LoadCall{Thread: r.Intn(pl.threads)}
			switch r.Intn(10) {
			case 0:
				call.Op = "supported"
			case 1:
				call.Op = "setnnp"
			default:
				call.Op = "load"
				call.Flags = allFlags[r.Intn(len(allFlags))]
				if r.Intn(3) == 0 {
					call.Flags = []uint32{0, flagTSync}[r.Intn(2)]
				}
				call.NNP = r.Intn(3) != 0
				switch r.Intn(8) {
				case 0:
					call.Policy = "invalid-name"
				case 1:
					call.Policy = "invalid-action"
				case 2:
					call.Policy = "oversize"
				case 3:
					call.Policy = "no-groups"
				default:
					call.Policy = fmt.Sprintf("valid%d", validUsed%len(probeNrs))
					if r.Intn(3) != 0 { // often the same filter again (possibly from another thread)
						validUsed++
					}
				}
			}
			pl.calls = append(pl.calls, call)
		}
		if i%10 == 7 && !pl.unprivileged {
			pl.pidns = true
		}
		pl.desc = fmt.Sprintf("PRNG history %d (%d threads, %d calls, unprivileged=%v, pid namespace=%v)", i, pl.threads, len(pl.calls), pl.unprivileged, pl.pidns)
		plans = append(plans, pl)
	}
	for i := range plans {
		plans[i].strace = (i%9 == 0 && !plans[i].pidns) || plans[i].inject != nil
	}

	bin, err := vlib.BuildHarnessCmd("vchild", "")
	if err != nil {
		run.Inconclusive("cannot build vchild: " + err.Error())
		run.Finish(0, 0, "")
	}
	var mu sync.Mutex
	refusals := map[string]int64{}
	rawReturns := map[string]int64{}
	distinct := map[string]bool{}

	vlib.Parallel(len(plans), func(pi int) {
		pl := plans[pi]
		used := map[string]vlib.PolicySpec{}
		for _, c := range pl.calls {
			if c.Policy != "" {
				used[c.Policy] = pols[c.Policy]
			}
		}
		cc := &vlib.ChildCase{Unprivileged: pl.unprivileged, StraceInject: pl.inject, History: &vlib.HistoryCase{Threads: pl.threads, Calls: pl.calls, Policies: used, Probes: probeNrs}}
		if pl.pidns {
			cc.PidNamespace, cc.History.MainThreadIsWorker0 = true, true
			run.Count("histories_as_process_1_of_a_pid_namespace", 1)
		}
		if pi%4 == 2 {
			cc.GCSpray = 1 + (pi/4)%3
			run.Count("histories_with_gc_and_allocation_spray_before_every_seccomp_call", 1)
		}
		res, err := vlib.RunChild(bin, "history", cc, pl.strace, 60*time.Second)
		if err != nil || res.TimedOut || res.Line("done") == nil {
			run.Count("watchdog_or_crash", 1)
			run.SoftInconclusive(fmt.Sprintf("history child did not finish (%s): %v %s", pl.desc, err, tail(res.Stderr, 300)))
			return
		}
		run.Count("histories", 1)
		replay := map[string]any{"check": "C09", "desc": pl.desc, "case": cc}
		var prevProbes map[string]any
		if init := res.Line("initial"); init != nil {
			prevProbes, _ = init["probes"].(map[string]any)
		}
		straceIdx := 0
		var seccompCalls []vlib.StraceCall
		for _, sc := range res.Strace {
			if sc.Name == "seccomp" {
				seccompCalls = append(seccompCalls, sc)
			}
		}
		localRef := map[string]int64{}
		for _, l := range res.Lines {
			if l["ev"] != "call" {
				continue
			}
			idx := int(jsonU64(l["idx"]))
			call := pl.calls[idx]
			tid := strconv.Itoa(int(jsonU64(l["tid"])))
			before, _ := l["before"].(map[string]any)
			after, _ := l["after"].(map[string]any)
			probes, _ := l["probes"].(map[string]any)
			result, _ := l["result"].(map[string]any)
			reached, _ := l["reached_kernel"].(bool)
			run.Count("calls", 1)
			run.Count("snapshots_compared", 1)
			get := func(snap map[string]any, tid, key string) string {
				m, _ := snap[tid].(map[string]any)
				if m == nil {
					return "?"
				}
				return fmt.Sprint(m[key])
			}
			what := fmt.Sprintf("%s: call %d %+v on tid %s", pl.desc, idx, call, tid)
			replay["call_record"] = l
			changed := func(keys ...string) string {
				for t2 := range before {
					if _, ok := after[t2]; !ok || get(after, t2, "Exiting") == "1" {
						continue
					}
					for _, k := range keys {
						if get(before, t2, k) != get(after, t2, k) {
							return fmt.Sprintf("thread %s: %s %s -> %s", t2, k, get(before, t2, k), get(after, t2, k))
						}
					}
				}
				return ""
			}
			switch call.Op {
			case "supported":
				if ch := changed("Seccomp", "Seccomp_filters", "NoNewPrivs"); ch != "" {
					run.Violation("supported-changes-state", what+": probing for support changed process state: "+ch, replay)
					return
				}
				if sup, _ := result["supported"].(bool); !sup {
					run.Count("supported_returned_false_not_judged_here", 1) // the property is about side effects of the probe
				}
				run.Count("supported_calls", 1)
			case "setnnp":
				if ch := changed("Seccomp", "Seccomp_filters"); ch != "" {
					run.Violation("setnnp-changes-filters", what+": "+ch, replay)
					return
				}
			case "load":
				isNil, _ := result["nil"].(bool)
				errText := fmt.Sprint(result["err"])
				// raw return value seen by strace, for the evidence
				if pl.strace && reached {
					for straceIdx < len(seccompCalls) && (len(seccompCalls[straceIdx].Args) == 0 || seccompCalls[straceIdx].Args[0] != 1) {
						straceIdx++
					}
					if straceIdx < len(seccompCalls) {
						sc := seccompCalls[straceIdx]
						straceIdx++
						cls := "0"
						switch {
						case sc.Ret > 0:
							cls = "positive"
						case sc.Ret < 0:
							cls = sc.Errno
						}
						mu.Lock()
						rawReturns[cls]++
						mu.Unlock()
					}
				}
				bf, af := get(before, tid, "Seccomp_filters"), get(after, tid, "Seccomp_filters")
				bfn, _ := strconv.Atoi(bf)
				afn, _ := strconv.Atoi(af)
				if pl.inject != nil {
					run.Count("injected_kernel_answers", 1)
				}
				if isNil {
					run.Count("nil_returns_checked", 1)
					if afn != bfn+1 || get(after, tid, "Seccomp") != "2" {
						sig := "nil-but-not-attached"
						if call.Flags&flagTSync != 0 && pl.divergent {
							sig = "nil-but-tsync-refused"
						}
						run.Violation(sig, what+fmt.Sprintf(": LoadFilter returned nil but the calling thread's filter count went %s -> %s (Seccomp mode %s): no filter was attached", bf, af, get(after, tid, "Seccomp")), replay)
						return
					}
					if call.Flags&flagTSync != 0 {
						for t2 := range after {
							if get(after, t2, "Exiting") == "1" {
								continue // skipped by the kernel's thread-sync, never runs user code again
							}
							if get(after, t2, "Seccomp_filters") != af || get(after, t2, "Seccomp") != "2" {
								run.Violation("nil-tsync-but-thread-unsynced", what+fmt.Sprintf(": nil with thread-sync, but thread %s has %s filters, the caller %s", t2, get(after, t2, "Seccomp_filters"), af), replay)
								return
							}
						}
					}
					// behaviour: the probe the new policy denies is denied
					if strings.HasPrefix(call.Policy, "valid") {
						k, _ := strconv.Atoi(strings.TrimPrefix(call.Policy, "valid"))
						nr := strconv.FormatUint(probeNrs[k], 10)
						for t2, pm := range probes {
							if t2 != tid && call.Flags&flagTSync == 0 {
								continue
							}
							m, _ := pm.(map[string]any)
							if jsonU64(m[nr]) != vlib.EPERM {
								run.Violation("nil-but-probe-not-denied", what+fmt.Sprintf(": nil, but probe syscall %s on thread %s returns errno %v", nr, t2, m[nr]), replay)
								return
							}
						}
					}
					if call.NNP && get(after, tid, "NoNewPrivs") != "1" {
						run.Violation("nnp-requested-not-set", what+": nil with NoNewPrivs requested but the bit is not set on the caller", replay)
						return
					}
				} else {
					run.Count("error_returns_checked", 1)
					if ch := changed("Seccomp", "Seccomp_filters"); ch != "" {
						run.Violation("error-but-filter-attached", what+fmt.Sprintf(": LoadFilter returned %q but a filter was attached: %s", errText, ch), replay)
						return
					}
					if fmt.Sprint(probes) != fmt.Sprint(prevProbes) {
						run.Violation("error-but-behaviour-changed", what+fmt.Sprintf(": LoadFilter returned %q but probe outcomes changed", errText), replay)
						return
					}
					if !reached {
						if ch := changed("NoNewPrivs"); ch != "" {
							run.Violation("failed-before-kernel-but-nnp-set", what+fmt.Sprintf(": the load failed in Assemble (%q) but %s", errText, ch), replay)
							return
						}
					}
					cls := "other"
					switch {
					case !reached:
						cls = "assemble-error"
					case strings.Contains(errText, "permission denied"):
						cls = "EACCES"
					case strings.Contains(errText, "invalid argument") && call.Policy == "oversize":
						cls = "EINVAL-oversize"
					case strings.Contains(errText, "invalid argument"):
						cls = "EINVAL-flags"
					case strings.Contains(errText, "no such process"):
						cls = "tsync-refused-ESRCH"
					case call.Flags&flagTSync != 0:
						cls = "tsync-refused"
					}
					localRef[cls]++
				}
				// kernel attached a filter => the call must have returned nil: covered by the error branch above
			}
			prevProbes = probes
		}
		mu.Lock()
		for k, v := range localRef {
			refusals[k] += v
		}
		distinct[pl.desc[:min(len(pl.desc), 14)]+fmt.Sprint(pl.calls)] = true
		mu.Unlock()
		if pi == nCat-1 || pi == nCat+1 {
			run.Sample(3, map[string]any{"desc": pl.desc, "calls": pl.calls, "threads": pl.threads})
		}
	})
	c09Concurrent(run, pols, probeNrs)
	for k, v := range refusals {
		run.Count("refusal:"+k, v)
	}
	run.Set("raw_seccomp_return_classes_seen_by_strace", rawReturns)
	run.Assume("the verdict comes from /proc/self/task/*/status (Seccomp, Seccomp_filters, NoNewPrivs) read before and after every call and from probe syscalls on every pinned thread; no model of the kernel decides",
		"amd64 host kernel only; unprivileged = uid/gid 65534 with all capabilities dropped by the credential change")
	if run.Violations() == 0 {
		run.Require("histories", int64(len(plans)*9/10))
		for _, k := range []string{"assemble-error", "EINVAL-oversize", "EINVAL-flags", "EACCES", "tsync-refused", "tsync-refused-ESRCH"} {
			run.Require("refusal:"+k, 1)
		}
		run.Require("nil_returns_checked", 30)
		run.Require("supported_calls", 30)
		run.Require("concurrent_histories", 100)
		run.Require("overlapping_call_pairs", 5)
	}
	run.Finish(run.Counter("calls"), int64(len(distinct)),
		"histories of load/Supported/SetNoNewPrivs calls on pinned OS threads in fresh child processes: all 13 flag words (incl. SPEC_ALLOW, TSYNC_ESRCH, NEW_LISTENER combinations) x NNP x {valid, invalid name, invalid action, oversize, exactly 4096 instructions} x {root, uid 65534} single-call histories, the divergent-filter thread-sync pattern, a thread-sync chain, and PRNG histories of 1..6 calls over 2..5 threads; per-thread kernel state and probe outcomes compared around every call; plus concurrent histories (2..4 threads calling LoadFilter at the same time, call/return times from one monotonic clock, final per-thread filters read back) checked for linearizability with porcupine against a sequential model of per-thread filter stacks; distinct = distinct call sequences")
}

// exactSizePolicy builds an allow-everything policy (groups of at most 200 unconditional names, actions allow/log)
// whose program has exactly target instructions, by compiling and correcting the size of the last groups.
func exactSizePolicy(t *vlib.Target, target int) (*seccomp.Policy, int) {
	const per = 200
	names := func(from, n int) []string {
		out := make([]string, n)
		for i := range out {
			out[i] = t.Names[(from+i)%len(t.Names)]
		}
		return out
	}
	build := func(total int) *seccomp.Policy {
		p := &seccomp.Policy{DefaultAction: vlib.RetAllow}
		for g := 0; total > 0; g++ {
			n := per
			if total < n {
				n = total
			}
			p.Syscalls = append(p.Syscalls, seccomp.SyscallGroup{Action: []seccomp.Action{vlib.RetAllow, vlib.RetLog}[g%2], Names: names(g*13, n)})
			total -= n
		}
		return p
	}
	length := func(p *seccomp.Policy) int {
		c := vlib.Compile(vlib.SpecOf(p, t.Name).Policy(), t)
		if !c.OK() {
			return -1
		}
		return len(c.Raw)
	}
	total := target * per / (per + 3)
	var p *seccomp.Policy
	l := 0
	for it := 0; it < 12; it++ {
		p = build(total)
		l = length(p)
		if l < 0 || l == target {
			break
		}
		total += target - l
		if total < 1 {
			total = 1
		}
	}
	return p, l
}
