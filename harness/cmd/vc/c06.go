package main

import (
	"fmt"
	"sync"

	"verif/harness/vlib"
)

func init() { checks["C06"] = c06 }

func c06() {
	run := vlib.NewRun("C06", "translation_validation")
	var cat [][]vlib.LOp
	var catDesc []string
	dists := []int{1, 2, 254, 255, 256, 257, 258, 510, 511, 512, 513, 767, 768, 1000}
	for _, pre := range []int{0, 1, 2, 5, 100, 300} {
		for _, tk := range []string{"ret", "ld", "jmp"} {
			for _, fill := range []string{"loads", "jumps", "mixed"} {
				for _, d := range dists {
					if d >= 2 {
						cat = append(cat, vlib.ShapeLabelProgram(pre, d, 1, tk, fill, 0)) // true far, false next
						catDesc = append(catDesc, fmt.Sprintf("pre=%d true=+%d false=+1 target=%s fill=%s", pre, d, tk, fill))
						cat = append(cat, vlib.ShapeLabelProgram(pre, 1, d, tk, fill, 0)) // false far
						catDesc = append(catDesc, fmt.Sprintf("pre=%d true=+1 false=+%d target=%s fill=%s", pre, d, tk, fill))
						cat = append(cat, vlib.ShapeLabelProgram(pre, d, d, tk, fill, 0)) // both to the same far label
						catDesc = append(catDesc, fmt.Sprintf("pre=%d true=false=+%d target=%s fill=%s", pre, d, tk, fill))
						cat = append(cat, vlib.ShapeLabelProgram(pre, d, 3, tk, fill, 5)) // sharers
						catDesc = append(catDesc, fmt.Sprintf("pre=%d true=+%d false=+3 target=%s fill=%s sharers=5", pre, d, tk, fill))
					}
					for _, d2 := range []int{256, 257, 600} { // both far, different labels
						if d2 != d && d >= 254 {
							cat = append(cat, vlib.ShapeLabelProgram(pre, d, d2, tk, fill, 0))
							catDesc = append(catDesc, fmt.Sprintf("pre=%d true=+%d false=+%d target=%s fill=%s", pre, d, d2, tk, fill))
						}
					}
				}
			}
		}
	}
	// two interacting jumps: every combination of four distances around the 8-bit limit and of the gap between the jumps
	// (thorough: all of them; quick: a PRNG sample)
	type twoJ struct {
		g, a, b, c, d int
		fill, tk      string
	}
	var twos []twoJ
	D := []int{1, 2, 254, 255, 256, 257, 258, 511, 512, 513}
	G := []int{1, 2, 3, 100, 253, 254, 255, 256, 257}
	r0 := caseRand(run, -1)
	for _, g := range G {
		for _, a := range D {
			for _, b := range D {
				for _, c := range D {
					for _, d := range D {
						for _, fk := range []string{"loads", "jumps", "mixed"} {
							for _, tk := range []string{"ret", "ld"} {
								if (run.Thorough() && (vlib.SubRun() == "" || r0.Intn(4) == 0)) || (!run.Thorough() && r0.Intn(90) == 0) {
									twos = append(twos, twoJ{g, a, b, c, d, fk, tk})
								}
							}
						}
					}
				}
			}
		}
	}
	// the two-jump programs are built when their turn comes (half a million of them do not fit a 32-bit address space at once)
	run.Count("two_jump_interaction_programs", int64(len(twos)))
	nRandom := run.N(40000, 1500000)
	total := len(cat) + len(twos) + nRandom

	var mu sync.Mutex
	var pairs, bridgedProgs, jaBr, retBr int64
	maxDist := 0
	shapes := map[string]bool{}
	errKinds := map[string]int64{}

	vlib.Parallel(total, func(i int) {
		r := caseRand(run, i)
		var ops []vlib.LOp
		desc := ""
		if i < len(cat) {
			ops, desc = cat[i], catDesc[i]
		} else if i < len(cat)+len(twos) {
			tj := twos[i-len(cat)]
			var ok bool
			if ops, ok = vlib.TwoJumpProgram(tj.g, tj.a, tj.b, tj.c, tj.d, tj.fill, tj.tk); !ok {
				return
			}
			desc = fmt.Sprintf("two jumps: A@0 true=+%d false=+%d, B@%d true=+%d false=+%d, fill=%s targets=%s", tj.a, tj.b, tj.g, tj.c, tj.d, tj.fill, tj.tk)
		} else {
			n := 2 + r.Intn(700)
			switch r.Intn(6) {
			case 0:
				n = 250 + r.Intn(20)
			case 1:
				n = 2 + r.Intn(3000)
			case 2:
				if r.Intn(12) == 0 {
					// sizes just below the points at which a growing instruction list is reallocated (powers of two and the
					// runtime's growth steps behind them): bridging then pushes the list across such a point
					base := []int{1024, 2048, 4096, 4096, 4096, 5632, 6144, 7680, 8192, 10240, 16384}[r.Intn(11)]
					n = base - 45 + r.Intn(50)
					run.Count("label_programs_sized_around_a_reallocation_point", 1)
				}
			}
			far := []float64{0, 0.02, 0.1, 0.5}[r.Intn(4)]
			ops = vlib.GenLabelProgram(r, n, far, r.Intn(3) == 0)
			desc = fmt.Sprintf("random n=%d far=%.2f", n, far)
		}
		if !vlib.InLabelDomain(ops) {
			run.Count("generator_outside_domain", 1)
			return
		}
		run.Count("label_programs", 1)
		// every fourth program is assembled once already while it is being built (some labels are not placed yet, so that
		// call normally fails), then completed and assembled: a legitimate history of the public builder
		early := -1
		if i%4 == 1 && len(ops) > 2 {
			early = 1 + r.Intn(len(ops)-1)
			if r.Intn(3) == 0 { // directly behind the first jump, in front of everything that may need a bridge
				for k, o := range ops {
					if o.Kind == vlib.LJmp && k+1 < len(ops) {
						early = k + 1
						break
					}
				}
			}
		}
		out, err, pan, again, earlyErr := vlib.BuildLabelProgramEarly(ops, early)
		replay := map[string]any{"check": "C06", "desc": desc, "case": i, "ops": ops}
		if early >= 0 {
			replay["assembled_early_after_ops"], replay["early_assemble_error"] = early, earlyErr
			desc += fmt.Sprintf(" [assembled early after %d ops: %q]", early, earlyErr)
			run.Count("programs_assembled_early_while_incomplete", 1)
			if earlyErr != "" && earlyErr != "-" {
				run.Count("early_assemblies_that_failed_as_expected", 1)
			}
			if earlyErr == "" {
				// the early call succeeded (every label it needed was placed): the builder has resolved the program as it
				// stood; building on is then outside what the statement covers - counted, the final result is not judged
				run.Count("early_assemblies_that_succeeded_final_result_not_judged", 1)
				return
			}
		}
		if pan != nil {
			run.Violation("builder-panics", fmt.Sprintf("%s: the builder panics on a forward label program: %v", desc, pan), replay)
			return
		}
		if err != nil {
			mu.Lock()
			errKinds[err.Error()]++
			mu.Unlock()
			run.Violation("valid-label-program-rejected", fmt.Sprintf("%s: Assemble fails on a forward, once-labelled, return-terminated program: %v", desc, err), replay)
			return
		}
		st, berr := vlib.Bisim(ops, out, false)
		if berr != nil {
			// look for a concrete input showing the difference
			raw := make([]string, 0)
			var witness any
			for k := 0; k < 3000; k++ {
				var w [16]uint32
				for x := range w {
					w[x] = []uint32{0, 1, 2, 3, 77, 0xabcd, 0x80000000, 0xffffffff, uint32(r.Intn(1100))}[r.Intn(9)]
				}
				want, e1 := vlib.RunLabel(ops, &w, false)
				got, e2 := vlib.RunIns(out, &w)
				if e1 == nil && (e2 != nil || got != want) {
					witness = map[string]any{"record_words": w, "label_program_returns": want, "assembled_returns": got, "assembled_fault": fmt.Sprint(e2)}
					break
				}
			}
			replay["witness_input"] = witness
			replay["assembled_len"] = len(out)
			_ = raw
			run.Violation("jump-target-not-preserved", fmt.Sprintf("%s (%d ops -> %d instructions): %v", desc, len(ops), len(out), berr), replay)
			return
		}
		// the same Program assembled a second time (a legitimate call sequence of the public builder) must still behave
		// like the label program
		if i%3 == 0 && again != nil {
			out2, err2, pan2 := again()
			run.Count("programs_assembled_twice", 1)
			if pan2 != nil || err2 != nil {
				// refusing to assemble twice would not contradict the property; only a second program that misbehaves does
				run.Count("second_assemble_refused_not_judged", 1)
				return
			}
			if _, berr2 := vlib.Bisim(ops, out2, false); berr2 != nil {
				run.Violation("second-assemble-differs", fmt.Sprintf("%s (%d ops): the first Assemble is equivalent to the label program, a second Assemble on the same Program is not: %v", desc, len(ops), berr2), replay)
				return
			}
		}
		run.Count("equivalent_programs", 1)
		mu.Lock()
		pairs += int64(st.Pairs)
		if len(out) > len(ops) {
			bridgedProgs++
		}
		jaBr += int64(st.JaBridges)
		retBr += int64(st.RetBridges)
		if st.MaxSkip > maxDist && len(out) > len(ops) {
			maxDist = st.MaxSkip
		}
		shapes[fmt.Sprint(len(ops), len(out)-len(ops), st.JaBridges)] = true
		mu.Unlock()
		if len(out) > len(ops) {
			run.Sample(3, map[string]any{"desc": desc, "label_ops": len(ops), "assembled_instructions": len(out), "ja_bridges": st.JaBridges, "early_return_bridges": st.RetBridges, "pairs_visited": st.Pairs, "first_ops": ops[:min(6, len(ops))]})
		}
	})
	run.Count("programs_needing_bridges", bridgedProgs)
	run.Count("ja_bridges_observed", jaBr)
	run.Count("early_return_bridges_observed", retBr)
	run.Count("pairs_visited", pairs)
	run.Set("max_label_distance_in_bridged_program", maxDist)
	run.Set("programs", run.Counter("label_programs"))
	run.Set("disagreements_checked", pairs)
	run.Set("assemble_errors", errKinds)
	run.Assume("programs are sampled (catalogue + PRNG); per program the pair walk covers every reachable (label pc, assembled pc) pair, i.e. all inputs",
		"policy-sized programs built by the compiler itself are covered by C01/C03/C05 on policies past 255 instructions")
	if run.Violations() == 0 {
		run.Require("programs_needing_bridges", 50)
		run.Require("ja_bridges_observed", 1)
		run.Require("early_return_bridges_observed", 1)
	}
	run.RunSecondaryBuild()
	run.Finish(run.Counter("label_programs"), int64(len(shapes)),
		"label programs built only through NewProgram/NewLabel/SetLabel/JmpIf/JmpIfTrue/LdHi/LdLo/Ret/Assemble: catalogue (one jump at distances 1..1000 to ret/load/jump, 0..300 preceding ops, true/false/both far, shared far labels, jump-sparse and jump-dense fillers; two interacting jumps with all combinations of four distances from {1,2,254..258,511..513} and gaps {1,2,3,100,253..257}) + PRNG forward DAGs up to 3000 ops; oracle: simultaneous walk over all reachable (label pc, assembled pc) pairs; distinct = (ops, inserted instructions, ja bridges)")
}
