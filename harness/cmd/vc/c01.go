package main

import (
	"fmt"
	"sync"

	seccomp "github.com/elastic/go-seccomp-bpf"

	"verif/harness/vlib"
)

func init() { checks["C01"] = c01 }

// c01Catalogue are hand-enumerated name-only shapes that are always run.
func c01Catalogue(ts []*vlib.Target) []struct {
	t *vlib.Target
	p *seccomp.Policy
} {
	var out []struct {
		t *vlib.Target
		p *seccomp.Policy
	}
	add := func(t *vlib.Target, p *seccomp.Policy) {
		out = append(out, struct {
			t *vlib.Target
			p *seccomp.Policy
		}{t, p})
	}
	for _, t := range ts {
		n := t.Names
		// every (group action, default) pair of the named actions
		for _, ga := range vlib.NamedActions {
			for _, da := range vlib.NamedActions {
				add(t, &seccomp.Policy{DefaultAction: da, Syscalls: []seccomp.SyscallGroup{{Names: []string{n[3], n[40]}, Action: ga}}})
			}
		}
		// two and three groups, each decisive; later group lists a name of an earlier one
		add(t, &seccomp.Policy{DefaultAction: vlib.RetAllow, Syscalls: []seccomp.SyscallGroup{
			{Names: []string{n[1], n[2]}, Action: vlib.RetErrno}, {Names: []string{n[5], n[6]}, Action: vlib.RetKillProcess}}})
		add(t, &seccomp.Policy{DefaultAction: vlib.RetKillProcess, Syscalls: []seccomp.SyscallGroup{
			{Names: []string{n[1], n[2]}, Action: vlib.RetAllow}, {Names: []string{n[2], n[6]}, Action: vlib.RetLog}, {Names: []string{n[6], n[7], n[1]}, Action: vlib.RetTrap}}})
		// empty groups in every position
		add(t, &seccomp.Policy{DefaultAction: vlib.RetAllow, Syscalls: []seccomp.SyscallGroup{
			{Action: vlib.RetErrno}, {Names: []string{n[5]}, Action: vlib.RetKillProcess}}})
		add(t, &seccomp.Policy{DefaultAction: vlib.RetAllow, Syscalls: []seccomp.SyscallGroup{
			{Names: []string{n[5]}, Action: vlib.RetKillProcess}, {Names: []string{}, Action: vlib.RetErrno}}})
		add(t, &seccomp.Policy{DefaultAction: vlib.RetAllow, Syscalls: []seccomp.SyscallGroup{
			{Names: []string{n[5]}, Action: vlib.RetKillProcess}, {Action: vlib.RetErrno}, {Names: []string{n[9]}, Action: vlib.RetTrace}}})
		add(t, &seccomp.Policy{DefaultAction: vlib.RetErrno, Syscalls: []seccomp.SyscallGroup{{Action: vlib.RetAllow}}})
		add(t, &seccomp.Policy{DefaultAction: vlib.RetTrap, Syscalls: []seccomp.SyscallGroup{{Action: vlib.RetAllow}, {Names: []string{}, Action: vlib.RetLog}}})
		// unnamed words as group actions
		for _, a := range []seccomp.Action{vlib.RetUserNotif, 0x00050005, 0x7ff00007, 0x12345678, 0x00050001} {
			add(t, &seccomp.Policy{DefaultAction: vlib.RetAllow, Syscalls: []seccomp.SyscallGroup{{Names: []string{n[0]}, Action: a}, {Names: []string{n[1]}, Action: vlib.RetErrno}}})
		}
		// the neighbourhood of the named action words: every single-bit change of each, and every union of two of them
		// (0x80050000 = kill_process|errno, ...), as the action of a group and as the action of the group behind it
		var words []seccomp.Action
		for _, a := range vlib.NamedActions {
			for b := 0; b < 32; b++ {
				words = append(words, a^seccomp.Action(1<<b))
			}
			for _, a2 := range vlib.NamedActions {
				if a|a2 != a && a|a2 != a2 {
					words = append(words, a|a2)
				}
			}
		}
		for k, w := range words {
			da := vlib.NamedActions[k%len(vlib.NamedActions)]
			if vlib.Enc(w) == vlib.Enc(da) {
				da = vlib.NamedActions[(k+1)%len(vlib.NamedActions)]
			}
			add(t, &seccomp.Policy{DefaultAction: da, Syscalls: []seccomp.SyscallGroup{{Names: []string{n[2], n[11]}, Action: w}, {Names: []string{n[4]}, Action: words[(k+1)%len(words)]}}})
		}
		// whole table in one group, and whole table minus one
		add(t, &seccomp.Policy{DefaultAction: vlib.RetKillProcess, Syscalls: []seccomp.SyscallGroup{{Names: append([]string{}, n...), Action: vlib.RetAllow}}})
		add(t, &seccomp.Policy{DefaultAction: vlib.RetErrno, Syscalls: []seccomp.SyscallGroup{{Names: append([]string{}, n[1:]...), Action: vlib.RetAllow}, {Names: []string{n[0]}, Action: vlib.RetTrap}}})
	}
	return out
}

func c01() {
	run := vlib.NewRun("C01", "translation_validation")
	_, ts := mustTargets(run)
	cat := c01Catalogue(ts)
	nRandom := run.N(4000, 60000)
	total := len(cat) + nRandom

	var mu sync.Mutex
	byGroup := map[int]int64{}
	byArch := map[string]int64{}
	classesSeen := map[uint32]bool{}
	distinctProgs := map[string]bool{}
	maxLen := 0
	var edgesGot, edgesTotal int64

	vlib.Parallel(total, func(i int) {
		r := caseRand(run, i)
		var t *vlib.Target
		var p *seccomp.Policy
		if i < len(cat) {
			t, p = cat[i].t, cat[i].p
		} else {
			t = ts[i%len(ts)]
			actions := vlib.NamedActions
			if r.Intn(5) == 0 {
				actions = append(append([]seccomp.Action{}, vlib.NamedActions...), vlib.RetUserNotif, 0x00050005, seccomp.Action(r.Uint32()))
			}
			p = vlib.GenNamesOnly(r, t, []int{0, 0, 1, 2, 3}[r.Intn(5)], actions, vlib.NamedActions)
			if i%7 == 4 {
				run.Count("policies_with_data_bits_in_group_actions", 1)
				vlib.WithDataBits(r, p)
			}
		}
		spec := vlib.SpecOf(p, t.Name)
		if i >= len(cat) && i%6 == 3 {
			vlib.ShareBackingArray(p) // same policy value; the groups' lists are sub-slices of one array
			run.Count("policies_whose_groups_share_one_array", 1)
		}
		c := vlib.Compile(p, t)
		run.Count("policies", 1)
		if !c.OK() {
			// Acceptance is C07's subject; here it only means nothing to evaluate.
			run.Count("not_accepted", 1)
			return
		}
		run.Count("programs", 1)
		ref := vlib.NewRef(spec.Policy(), t)
		pool := vlib.AdversarialPool(p, t)
		nrs := vlib.NrClasses(c, ref)
		cov := vlib.NewCov(len(c.Raw))
		lg := map[int]int64{}
		var events int64
		for _, nr := range nrs {
			if t.X32Guard && nr >= vlib.X32Bit {
				continue // C04's subject
			}
			for rep := 0; rep < 2; rep++ {
				e := vlib.Event{NR: nr, Arch: t.ID, IP: pool[r.Intn(len(pool))], Args: vlib.FillArgs(r, pool)}
				w := e.Words(false)
				tr, err := c.RunBoth(&w, cov, false)
				want, why := ref.Decide(e)
				events++
				switch why.Kind {
				case vlib.WhyUncond:
					lg[why.Group+1]++
				case vlib.WhyDefault:
					lg[0]++
				}
				if err != nil || tr.Ret != want {
					got := fmt.Sprintf("%#x", tr.Ret)
					if err != nil {
						got = "fault: " + err.Error()
					}
					sig := "default-expected"
					if why.Kind == vlib.WhyUncond {
						sig = "group1-expected"
						if why.Group > 0 {
							sig = "later-group-expected"
						}
					}
					run.Violation(sig, fmt.Sprintf("arch %s: event %v: filter gives %s, policy says %#x (decided by kind=%d group=%d)", t.Name, e, got, want, why.Kind, why.Group),
						map[string]any{"check": "C01", "policy": spec, "event": e, "expected": want, "observed": got, "case": i})
					return
				}
			}
		}
		eventsBeforeEdits := events
		// the same Policy value edited in place and compiled again: the filter must follow the policy as it is now
		for edit := 0; edit < 2 && len(p.Syscalls) > 0; edit++ {
			gi := r.Intn(len(p.Syscalls))
			what := ""
			switch {
			case len(p.Syscalls[gi].Names) > 0 && edit == 0:
				inGroup := map[string]bool{}
				for _, n := range p.Syscalls[gi].Names {
					inGroup[n] = true
				}
				for k := 0; k < 50; k++ {
					n := t.Names[r.Intn(len(t.Names))]
					if !inGroup[n] {
						at := r.Intn(len(p.Syscalls[gi].Names))
						what = fmt.Sprintf("group %d: name %q replaced in place by %q", gi, p.Syscalls[gi].Names[at], n)
						p.Syscalls[gi].Names[at] = n
						break
					}
				}
			default:
				old := p.Syscalls[gi].Action
				p.Syscalls[gi].Action = vlib.NamedActions[r.Intn(len(vlib.NamedActions))]
				what = fmt.Sprintf("group %d: action %#x changed in place to %#x", gi, uint32(old), uint32(p.Syscalls[gi].Action))
			}
			if what == "" {
				continue
			}
			spec2 := vlib.SpecOf(p, t.Name)
			c2 := vlib.Compile(p, t) // the very same *Policy
			if !c2.OK() {
				break
			}
			ref2 := vlib.NewRef(spec2.Policy(), t)
			run.Count("recompilations_after_in_place_edit", 1)
			for _, nr := range vlib.NrClasses(c2, ref2) {
				if t.X32Guard && nr >= vlib.X32Bit {
					continue
				}
				e := vlib.Event{NR: nr, Arch: t.ID, Args: vlib.FillArgs(r, pool)}
				w := e.Words(false)
				tr, err := c2.RunBoth(&w, nil, false)
				want, _ := ref2.Decide(e)
				events++
				if err != nil || tr.Ret != want {
					run.Violation("stale-after-in-place-edit", fmt.Sprintf("arch %s: after %s and compiling the same Policy value again, event %v gets %#x, the edited policy says %#x", t.Name, what, e, tr.Ret, want),
						map[string]any{"check": "C01", "policy_after_edit": spec2, "policy_before_edit": spec, "edit": what, "event": e, "expected": want, "case": i})
					return
				}
			}
		}
		run.Count("events", events)
		run.Count("events_after_in_place_edits", events-eventsBeforeEdits)
		g, tot := cov.Covered(c.Raw)
		mu.Lock()
		for k, v := range lg {
			byGroup[k] += v
		}
		byArch[t.Name]++
		for _, nr := range nrs {
			classesSeen[nr] = true
		}
		if len(c.Raw) > maxLen {
			maxLen = len(c.Raw)
		}
		edgesGot += int64(g)
		edgesTotal += int64(tot)
		distinctProgs[fmt.Sprint(len(c.Raw), len(p.Syscalls), ref.AllowedReturns())] = true
		mu.Unlock()
		if len(p.Syscalls) >= 2 {
			run.Sample(3, map[string]any{"policy": spec.Brief(), "program_len": len(c.Raw), "nr_classes": len(nrs), "first_events": []any{
				vlib.Event{NR: nrs[0], Arch: t.ID}, vlib.Event{NR: nrs[len(nrs)/2], Arch: t.ID}}})
		}
	})

	hist := map[string]int64{}
	var later int64
	for k, v := range byGroup {
		if k == 0 {
			hist["default"] = v
		} else {
			hist[fmt.Sprintf("group%d", k)] = v
			if k >= 2 {
				later += v
			}
		}
	}
	run.Count("decided_by_group_ge2", later)
	run.Set("decided_by", hist)
	run.Set("programs_per_arch", byArch)
	run.Set("programs", run.Counter("programs"))
	run.Set("disagreements_checked", run.Counter("events"))
	run.Set("distinct_nr_values", len(classesSeen))
	run.Set("max_program_len", maxLen)
	run.Set("branch_edges_executed", fmt.Sprintf("%d of %d", edgesGot, edgesTotal))
	run.Assume("E1 interpreter implements the kernel's cBPF semantics for the seccomp subset (cross-checked against the kernel by C08)",
		"arm/aarch64 programs are never run on a kernel")
	if run.Violations() == 0 {
		run.Require("programs", 50)
		run.Require("decided_by_group_ge2", 1)
	}
	run.RunSecondaryBuild()
	run.Finish(run.Counter("events"), int64(len(distinctProgs)),
		"name-only policies (catalogue + PRNG: 1..8 and 9..150 groups, sizes incl. 0/1/253..258/half/whole table, table splits) compiled by the real compiler; every class of the nr partition induced by program constants and policy numbers x 2 adversarial argument fills, run through E1 (raw+typed) and compared with E2; then the same Policy value is edited in place (name replaced, action changed), compiled again and re-judged; distinct = distinct (program length, groups, return set) shapes")
}
