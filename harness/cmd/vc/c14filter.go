package main

import (
	"fmt"

	seccomp "github.com/elastic/go-seccomp-bpf"
	ucfgyaml "github.com/elastic/go-ucfg/yaml"

	"verif/harness/vlib"
)

// c14WholeFilter: the Filter value as a whole through the configuration loader (no_new_privs, flag, policy): a key that the
// text gives is taken over, a key that it leaves out leaves the receiver's field as it was - in particular a Filter that
// was zero stays without no_new_privs and without flags - and the policy inside compiles to the same program.
func c14WholeFilter(run *vlib.Run, ts []*vlib.Target) {
	t := targetByName(ts, "x86_64")
	pol := "policy:\n  default_action: allow\n  syscalls:\n  - action: errno\n    names:\n    - getppid\n    - sync\n"
	want := vlib.Compile(&seccomp.Policy{DefaultAction: vlib.RetAllow, Syscalls: []seccomp.SyscallGroup{{Names: []string{"getppid", "sync"}, Action: vlib.RetErrno}}}, t)
	type tri struct {
		text string
		set  bool
		b    bool
		n    uint32
	}
	nnps := []tri{{"", false, false, 0}, {"no_new_privs: true\n", true, true, 0}, {"no_new_privs: false\n", true, false, 0}}
	flags := []tri{{"", false, false, 0}, {"flag: 0\n", true, false, 0}, {"flag: 1\n", true, false, 1}, {"flag: 2\n", true, false, 2}, {"flag: 3\n", true, false, 3}}
	for _, recv := range []seccomp.Filter{{}, {NoNewPrivs: true, Flag: 3}, {NoNewPrivs: false, Flag: 2}} {
		for _, n := range nnps {
			for _, fl := range flags {
				for order := 0; order < 2; order++ {
					text := n.text + fl.text + pol
					if order == 1 {
						text = pol + fl.text + n.text
					}
					conf, err := ucfgyaml.NewConfig([]byte(text))
					if err != nil {
						run.Inconclusive("harness: filter text does not parse: " + err.Error())
						return
					}
					f := recv
					err = conf.Unpack(&f)
					run.Count("whole_filter_configurations", 1)
					replay := map[string]any{"check": "C14", "filter_text": text, "receiver": fmt.Sprintf("%+v", recv)}
					if err != nil {
						run.Violation("filter-config-refused", fmt.Sprintf("a Filter configuration with documented keys is refused: %v", err), replay)
						return
					}
					wantN, wantF := recv.NoNewPrivs, uint32(recv.Flag)
					if n.set {
						wantN = n.b
					}
					if fl.set {
						wantF = fl.n
					}
					if f.NoNewPrivs != wantN {
						run.Violation("filter-config-no-new-privs", fmt.Sprintf("Filter unpacked from %q into a receiver with NoNewPrivs=%v has NoNewPrivs=%v, expected %v (given: %v)", n.text, recv.NoNewPrivs, f.NoNewPrivs, wantN, n.set), replay)
						return
					}
					if uint32(f.Flag) != wantF {
						run.Violation("filter-config-flag", fmt.Sprintf("Filter unpacked from %q into a receiver with Flag=%d has Flag=%d, expected %d", fl.text, recv.Flag, f.Flag, wantF), replay)
						return
					}
					got := vlib.Compile(&f.Policy, t)
					if !got.OK() || !want.OK() || fmt.Sprint(got.Raw) != fmt.Sprint(want.Raw) {
						run.Violation("filter-config-policy", "the policy inside a Filter configuration compiles to another program than the equivalent in-memory policy", replay)
						return
					}
				}
			}
		}
	}
}
