package main

import (
	"fmt"
	"sort"
	"sync"

	seccomp "github.com/elastic/go-seccomp-bpf"
	"golang.org/x/net/bpf"

	"verif/harness/vlib"
)

func init() { checks["C04"] = c04 }

// traceWords replays the executed pcs and reports, for every executed
// conditional jump, which record word the accumulator held and the constant.
type cmpObs struct {
	word int // index of the 32-bit word held in A (-1: nothing loaded)
	k    uint32
}

func traceCompares(raw []bpf.RawInstruction, pcs []int) (cmps []cmpObs, loads []int) {
	word := -1
	for _, pc := range pcs {
		in := raw[pc]
		switch in.Op {
		case 0x20:
			word = int(in.K / 4)
			loads = append(loads, word)
		case 0x15, 0x25, 0x35, 0x45:
			cmps = append(cmps, cmpObs{word, in.K})
		}
	}
	return
}

func c04() {
	run := vlib.NewRun("C04", "translation_validation")
	o, ts := mustTargets(run)
	if x32, err := vlib.X32Target(o); err == nil {
		ts = append(append([]*vlib.Target{}, ts...), x32) // policies for the x32 table: x86_64 events all the same
	}
	allArch := o.AllAuditArch()

	nRandom := run.N(2400, 30000)
	// size sweep: one-group name lists whose length steps jumpN through 255/256
	type sweep struct {
		t *vlib.Target
		n int
	}
	var sweeps []sweep
	for _, t := range ts {
		for n := 244; n <= 266; n++ {
			sweeps = append(sweeps, sweep{t, n})
		}
		sweeps = append(sweeps, sweep{t, 1}, sweep{t, len(t.Names)})
	}
	// degenerate shapes (empty groups in every position, single name, whole table, maximal lists)
	var degenerate []tpolicy
	for _, tp := range c05Catalogue(ts) {
		degenerate = append(degenerate, tp)
	}
	total := len(sweeps) + nRandom + len(degenerate)

	var mu sync.Mutex
	cells := map[string]int64{}
	var shortForm, longForm, j255, j256 int64
	maxForeignSteps, maxX32Steps := 0, 0
	shapes := map[string]bool{}

	vlib.Parallel(total, func(i int) {
		r := caseRand(run, i)
		var t *vlib.Target
		var p *seccomp.Policy
		if i >= len(sweeps)+nRandom {
			tp := degenerate[i-len(sweeps)-nRandom]
			t, p = tp.t, vlib.SpecOf(tp.p, tp.t.Name).Policy()
			run.Count("degenerate_policies", 1)
		} else if i < len(sweeps) {
			t = sweeps[i].t
			names := append([]string{}, t.Names...)
			r.Shuffle(len(names), func(a, b int) { names[a], names[b] = names[b], names[a] })
			p = &seccomp.Policy{DefaultAction: vlib.RetKillProcess, Syscalls: []seccomp.SyscallGroup{{Names: names[:sweeps[i].n], Action: vlib.RetAllow}}}
		} else {
			t = ts[i%len(ts)]
			if i%2 == 0 {
				mp := vlib.DefaultMixed()
				mp.DistinctDefault = true
				if i%6 == 0 {
					mp.LongListChance, mp.BigNamesChance = 2, 3
				}
				p = vlib.GenMixed(r, t, mp)
			} else {
				p = vlib.GenNamesOnly(r, t, r.Intn(3), vlib.NamedActions, vlib.NamedActions)
				for gi := range p.Syscalls { // default must be distinguishable
					for p.Syscalls[gi].Action == p.DefaultAction {
						p.Syscalls[gi].Action = vlib.NamedActions[r.Intn(len(vlib.NamedActions))]
					}
				}
			}
		}
		if i >= len(sweeps) && i < len(sweeps)+nRandom && i%5 == 3 {
			run.Count("policies_with_data_bits_in_group_actions", 1)
			vlib.WithDataBits(r, p)
		}
		spec := vlib.SpecOf(p, t.Name)
		c := vlib.Compile(p, t)
		run.Count("policies", 1)
		if !c.OK() {
			run.Count("not_accepted", 1)
			return
		}
		run.Count("programs", 1)
		ref := vlib.NewRef(spec.Policy(), t)
		pool := vlib.AdversarialPool(p, t)
		listed := vlib.PolicyNumbers(p, t)
		if len(listed) == 0 {
			listed = []uint32{0}
		}

		// architecture words
		archWords := append([]uint32{0, 0xffffffff}, allArch...)
		for b := 0; b < 32; b++ {
			archWords = append(archWords, t.ID^(1<<b))
		}
		nrsForeign := []uint32{listed[0], listed[len(listed)-1], listed[r.Intn(len(listed))], 0, 0x3fffffff, 0x40000000, 0x40000000 | listed[0], 0xffffffff}
		local := map[string]int64{}
		fail := func(sig, what string, e vlib.Event, want uint32, got string) {
			run.Violation(sig, fmt.Sprintf("arch %s, program of %d instructions: event %v: %s (filter gives %s, expected %#x)", t.Name, len(c.Raw), e, what, got, want),
				map[string]any{"check": "C04", "policy": spec, "event": e, "expected": want, "observed": got, "case": i})
		}
		localMaxF, localMaxX := 0, 0
		for _, aw := range archWords {
			if aw == t.ID {
				continue
			}
			for _, nr := range nrsForeign {
				e := vlib.Event{NR: nr, Arch: aw, IP: pool[r.Intn(len(pool))], Args: vlib.FillArgs(r, pool)}
				w := e.Words(false)
				tr, err := c.RunBoth(&w, nil, true)
				want, _ := ref.Decide(e)
				got := fmt.Sprintf("%#x", tr.Ret)
				if err != nil {
					got = "fault: " + err.Error()
				}
				if err != nil || tr.Ret != want {
					fail("foreign-arch-not-default", "foreign architecture must get the default action", e, want, got)
					return
				}
				cmps, loads := traceCompares(c.Raw, tr.PCs)
				for _, cm := range cmps {
					if cm.word == 0 && (cm.k == 0x40000000 || cm.k == 0x3fffffff) {
						continue // the x32 boundary test is no name or argument rule, wherever the compiler places it
					}
					if cm.word != 1 {
						fail("foreign-arch-compared-against-rule", fmt.Sprintf("a foreign-architecture event was compared against constant %#x while the accumulator held record word %d", cm.k, cm.word), e, want, got)
						return
					}
				}
				for _, l := range loads {
					if l >= 4 {
						fail("foreign-arch-loads-argument", fmt.Sprintf("a foreign-architecture event made the filter load argument word %d", l), e, want, got)
						return
					}
				}
				if tr.Steps > localMaxF {
					localMaxF = tr.Steps
				}
				cls := "known-audit-arch"
				switch {
				case aw == 0 || aw == 0xffffffff:
					cls = "0-or-ffffffff"
				case aw^t.ID != 0 && (aw^t.ID)&((aw^t.ID)-1) == 0:
					cls = "one-bit-flip"
				}
				local["foreign/"+cls]++
			}
		}
		if t.X32Guard {
			nrsX32 := []uint32{0x40000000, 0x40000001, 0x7fffffff, 0x80000000, 0xfffffffe, 0xffffffff}
			for _, l := range listed {
				nrsX32 = append(nrsX32, l|0x40000000, l|0x80000000)
				if len(nrsX32) > 120 {
					break
				}
			}
			for _, nr := range nrsX32 {
				for rep := 0; rep < 2; rep++ {
					e := vlib.Event{NR: nr, Arch: t.ID, IP: pool[r.Intn(len(pool))], Args: vlib.FillArgs(r, pool)}
					w := e.Words(false)
					tr, err := c.RunBoth(&w, nil, true)
					want := uint32(vlib.RetErrno | vlib.ENOSYS)
					got := fmt.Sprintf("%#x", tr.Ret)
					if err != nil {
						got = "fault: " + err.Error()
					}
					if err != nil || tr.Ret != want {
						fail("x32-not-enosys", "a number with the x32 bit must get ERRNO(ENOSYS)", e, want, got)
						return
					}
					cmps, loads := traceCompares(c.Raw, tr.PCs)
					for _, cm := range cmps {
						if cm.word == 1 || (cm.word == 0 && (cm.k == 0x40000000 || cm.k == 0x3fffffff)) {
							continue
						}
						fail("x32-compared-against-rule", fmt.Sprintf("an x32 event was compared against constant %#x (accumulator held word %d)", cm.k, cm.word), e, want, got)
						return
					}
					for _, l := range loads {
						if l >= 4 {
							fail("x32-loads-argument", fmt.Sprintf("an x32 event made the filter load argument word %d", l), e, want, got)
							return
						}
					}
					if tr.Steps > localMaxX {
						localMaxX = tr.Steps
					}
					local["x32/"+map[bool]string{true: "listed-number-with-bit", false: "boundary"}[nr&0x3fffffff == listed[0] || nr > 0x40000001 && nr < 0x7fffffff]]++
				}
			}
			// just below the bit: the guard must not fire (what the event gets
			// instead is C01/C03's subject, not judged here)
			{
				named := true
				for _, g := range p.Syscalls {
					if vlib.Enc(g.Action) == vlib.RetErrno|vlib.ENOSYS {
						named = false
					}
				}
				if named {
					e := vlib.Event{NR: 0x3fffffff, Arch: t.ID, Args: vlib.FillArgs(r, pool)}
					w := e.Words(false)
					tr, err := c.RunBoth(&w, nil, false)
					if err == nil && tr.Ret == vlib.RetErrno|vlib.ENOSYS {
						fail("below-x32-bit-gets-enosys", "0x3fffffff does not carry the x32 bit but was answered by the x32 guard", e, 0, fmt.Sprintf("%#x", tr.Ret))
						return
					}
					local["x32/just-below"]++
				}
			}
		}
		// a history: the default action of the very same Policy value is changed in place and the value compiled again -
		// foreign-architecture and x32 events must get what the policy says now
		if i%3 == 0 {
			old := p.DefaultAction
			for _, a := range []seccomp.Action{vlib.RetTrap, vlib.RetKillThread, vlib.RetLog, vlib.RetKillProcess} {
				fresh := a != old
				for _, g := range p.Syscalls {
					if g.Action == a {
						fresh = false
					}
				}
				if fresh {
					p.DefaultAction = a
					break
				}
			}
			if p.DefaultAction != old {
				spec2 := vlib.SpecOf(p, t.Name)
				c2 := vlib.Compile(p, t)
				run.Count("recompilations_after_the_default_action_was_changed_in_place", 1)
				if c2.OK() {
					ref2 := vlib.NewRef(spec2.Policy(), t)
					words := []uint32{0, 0xffffffff, t.ID ^ 1, t.ID ^ (1 << 30), allArch[r.Intn(len(allArch))]}
					for _, aw := range words {
						if aw == t.ID {
							continue
						}
						for _, nr := range nrsForeign[:4] {
							e := vlib.Event{NR: nr, Arch: aw, IP: pool[r.Intn(len(pool))], Args: vlib.FillArgs(r, pool)}
							w := e.Words(false)
							tr, err := c2.RunBoth(&w, nil, false)
							want, _ := ref2.Decide(e)
							local["foreign/after-default-changed-in-place"]++
							if err != nil || tr.Ret != want {
								run.Violation("foreign-arch-not-default", fmt.Sprintf("arch %s: after the default action of the same Policy value was changed in place from %#x to %#x and the value compiled again, the foreign-architecture event %v gets %#x (%v), the policy says %#x", t.Name, uint32(old), uint32(p.DefaultAction), e, tr.Ret, err, want),
									map[string]any{"check": "C04", "policy": spec2, "event": e, "expected": want, "history": "compiled, default action changed in place, compiled again", "case": i})
								return
							}
						}
					}
					if t.X32Guard {
						e := vlib.Event{NR: 0x40000000 | listed[0], Arch: t.ID, Args: vlib.FillArgs(r, pool)}
						w := e.Words(false)
						if tr, err := c2.RunBoth(&w, nil, false); err != nil || tr.Ret != uint32(vlib.RetErrno|vlib.ENOSYS) {
							run.Violation("x32-not-enosys", fmt.Sprintf("arch %s: after the default action was changed in place and the value compiled again, the x32 event %v gets %#x (%v)", t.Name, e, tr.Ret, err), map[string]any{"check": "C04", "policy": spec2, "event": e, "case": i})
							return
						}
					}
				}
			}
		}
		if len(c.Raw) > 257 {
			run.Count("programs_longer_than_257_instructions", 1)
		}
		// arch-jump encoding
		form, jn := "short", -1
		if len(c.Raw) > 2 && c.Raw[1].Op == 0x15 {
			if c.Raw[2].Op == 0x05 && c.Raw[1].Jt == 1 && c.Raw[1].Jf == 0 {
				form, jn = "long", int(c.Raw[2].K)
			} else {
				jn = int(c.Raw[1].Jf) // jne encoded as jeq with swapped skips
				if c.Raw[1].Jt != 0 {
					jn = int(c.Raw[1].Jt)
				}
			}
		}
		mu.Lock()
		for k, v := range local {
			cells[k] += v
		}
		if form == "short" {
			shortForm++
		} else {
			longForm++
		}
		if jn == 255 {
			j255++
		}
		if jn == 256 {
			j256++
		}
		if localMaxF > maxForeignSteps {
			maxForeignSteps = localMaxF
		}
		if localMaxX > maxX32Steps {
			maxX32Steps = localMaxX
		}
		shapes[fmt.Sprint(t.Name, form, len(c.Raw))] = true
		mu.Unlock()
		if i == len(sweeps)+1 || i == 11 {
			run.Sample(3, map[string]any{"policy": spec.Brief(), "program_len": len(c.Raw), "arch_jump": form, "arch_words_tried": len(archWords),
				"sample_event": vlib.Event{NR: nrsForeign[0], Arch: archWords[5], Args: [6]uint64{pool[0], pool[len(pool)-1]}}})
		}
	})
	c04KernelTier(run, o, ts)
	var ev int64
	keys := make([]string, 0, len(cells))
	for k, v := range cells {
		ev += v
		keys = append(keys, k)
		run.Count("events:"+k, v)
	}
	sort.Strings(keys)
	run.Count("arch_jump_short", shortForm)
	run.Count("arch_jump_long", longForm)
	run.Count("arch_jump_distance_255", j255)
	run.Count("arch_jump_distance_256", j256)
	run.Set("max_instructions_executed_for_foreign_event", maxForeignSteps)
	run.Set("max_instructions_executed_for_x32_event", maxX32Steps)
	run.Set("programs", run.Counter("programs"))
	run.Set("disagreements_checked", ev)
	run.Assume("'never compared against a rule' is judged on the executed instructions: every executed conditional jump must test the architecture word (or, for x32 events, the number against the x32 boundary) and no argument word may be loaded",
		"kernel confirmation (int $0x80, nr|0x40000000, 386 child) is part of the thorough tier")
	if run.Violations() == 0 {
		run.Require("programs", 50)
		// the counters arch_jump_* describe how the pinned compiler encodes the architecture jump; they are information, not
		// requirements (a compiler that answers a foreign architecture differently is as right): what is required is that
		// programs on both sides of the 8-bit distance were judged
		run.Require("programs_longer_than_257_instructions", 10)
		run.Require("events:x32/listed-number-with-bit", 1)
		run.Require("events:foreign/one-bit-flip", 1)
		run.Require("kernel:children", 10)
		run.Require("kernel:int80_probes", 10)
		run.Require("kernel:x32_probes", 10)
		run.Require("kernel:foreign_386_children", 3)
	}
	run.Finish(ev, int64(len(shapes)),
		"policies from the name-only and mixed profiles with default != every group action, plus one-group lists of 244..266 names per architecture (steps the architecture jump through both encodings); events: every AUDIT_ARCH of linux/audit.h, the policy arch with each single bit flipped, 0, ffffffff x listed/boundary numbers; on x86_64 numbers with the x32 bit incl. listed|bit; verdict and executed-instruction oracle; distinct = (arch, jump encoding, program length)")
}

// c04KernelTier produces foreign-architecture and x32 events on the running
// kernel: int $0x80 from an amd64 process under an x86_64 policy that lists
// the coinciding numbers, nr|0x40000000, and a 386 process under a policy
// compiled for x86_64 (hook H1).
func c04KernelTier(run *vlib.Run, o *vlib.Oracles, ts []*vlib.Target) {
	x64 := targetByName(ts, "x86_64")
	i386 := targetByName(ts, "i386")
	nameAt := func(t *vlib.Target, nr uint32) string {
		for n, v := range t.Num {
			if v == nr {
				return n
			}
		}
		return ""
	}
	st := &kernelStats{outcomes: map[string]int64{}, perABI: map[string]int64{}, shapes: map[string]bool{}}
	n := run.N(60, 900)
	vlib.Parallel(n, func(i int) {
		r := caseRand(run, 3000000+i)
		var coinciding []string // x86_64 names whose numbers are the i386 numbers of the probes
		var i386nrs []uint32
		for _, pn := range probeNames["386"] {
			nr := i386.Num[pn]
			if nm := nameAt(x64, nr); nm != "" && nm != "sched_yield" && nm != "futex" && nm != "tkill" {
				coinciding = append(coinciding, nm)
				i386nrs = append(i386nrs, nr)
			}
		}
		switch i % 3 {
		case 0, 1: // amd64 child: int80 and x32 probes
			var p *seccomp.Policy
			if i%3 == 0 {
				p = &seccomp.Policy{DefaultAction: vlib.RetAllow, Syscalls: []seccomp.SyscallGroup{{Names: coinciding, Action: vlib.RetErrno}, {Names: []string{"getppid", "getuid"}, Action: vlib.RetErrno}}}
			} else {
				p = genProbePolicy(r, x64, probeNames["amd64"], 1, false, false) // default errno, whole-table allow-list
			}
			cc := &vlib.ChildCase{Policy: vlib.SpecOf(p, "x86_64"), Flags: uint32(r.Intn(4)), NNP: true}
			for _, nr := range i386nrs {
				if nr == i386.Num["munlockall"] || nr >= 199 { // keep to the classic get*id calls through int80
					continue
				}
				cc.Probes = append(cc.Probes, vlib.Probe{Kind: "int80", NR: uint64(nr), Args: [6]uint64{uint64(r.Uint32()), uint64(x64.Num["getppid"]), uint64(r.Uint32())}})
				run.Count("kernel:int80_probes", 1)
			}
			for _, pn := range probeNames["amd64"] {
				cc.Probes = append(cc.Probes, vlib.Probe{Kind: "syscall", NR: uint64(x64.Num[pn]), Args: vlib.FillArgs(r, []uint64{0, 1, 64, 110})})
				cc.Probes = append(cc.Probes, vlib.Probe{Kind: "syscall", NR: uint64(x64.Num[pn] | vlib.X32Bit), Args: vlib.FillArgs(r, []uint64{0, 1, 64, 110})})
				run.Count("kernel:x32_probes", 1)
			}
			cc.Probes = append(cc.Probes, vlib.Probe{Kind: "syscall", NR: 0x7fffffff}, vlib.Probe{Kind: "syscall", NR: 0x40000000 | 600})
			kc := &kernelCase{goarch: "amd64", t: x64, cc: cc, strace: false, desc: fmt.Sprintf("kernel case %d: amd64 child, int80+x32 probes", i)}
			judgeEnforce(run, o, kc, st, "kernel:")
		default: // 386 child under an x86_64 policy: every syscall of the child is foreign
			p := &seccomp.Policy{DefaultAction: vlib.RetAllow, Syscalls: []seccomp.SyscallGroup{{Names: coinciding, Action: vlib.RetErrno}}}
			if i%2 == 0 {
				p.DefaultAction = vlib.RetLog
				p.Syscalls = append(p.Syscalls, seccomp.SyscallGroup{Action: vlib.RetKillProcess, NamesWithCondtions: []seccomp.NameWithConditions{{Name: coinciding[0], Conditions: seccomp.ArgumentConditions{{Argument: 0, Operation: "GreaterOrEqual", Value: 0}}}}})
			}
			cc := &vlib.ChildCase{Policy: vlib.SpecOf(p, "x86_64"), ForceArch: "x86_64", Flags: uint32(r.Intn(4)), NNP: true}
			for _, pn := range probeNames["386"] {
				cc.Probes = append(cc.Probes, vlib.Probe{Kind: "syscall", NR: uint64(i386.Num[pn]), Args: vlib.FillArgs(r, []uint64{0, 1, 64, 0xffffffff})})
			}
			kc := &kernelCase{goarch: "386", t: x64, cc: cc, strace: i%6 == 2, desc: fmt.Sprintf("kernel case %d: 386 child under a policy compiled for x86_64", i)}
			if judgeEnforce(run, o, kc, st, "kernel:") {
				run.Count("kernel:foreign_386_children", 1)
			}
		}
	})
	for k, v := range st.outcomes {
		run.Count("kernel:outcome:"+k, v)
	}
}
