package main

import (
	"bytes"
	"encoding/json"
	"fmt"
	"go/ast"
	"go/parser"
	"go/token"
	"os"
	"os/exec"
	"path/filepath"
	"sort"
	"strings"

	"verif/harness/vlib"
)

// c19AllExported: every exported constant of the root package and of the arch package, whatever its name - the list is read
// from the sources the build system selects for each executed target (go list + go/parser), a probe program that prints
// all of them is generated, built and run for that target, and the values are compared between the targets ("numerically
// identical wherever it is built"). Constants whose name maps onto a kernel UAPI name by the SECCOMP_ naming scheme are
// also compared with the oracle.
func c19AllExported(run *vlib.Run, o *vlib.Oracles) {
	type target struct{ goos, goarch string }
	executed := []target{{"linux", "amd64"}, {"linux", "386"}, {"js", "wasm"}}
	repo := vlib.RepoDir()
	pkgs := map[string]string{"seccomp": ".", "arch": "./arch"}
	values := map[string]map[string]string{} // target -> "pkg.Name" -> printed value
	base := filepath.Join(vlib.BinDir(), "c19all")
	defer os.RemoveAll(base)
	for _, tg := range executed {
		name := tg.goos + "/" + tg.goarch
		var lines []string
		for alias, dir := range pkgs {
			cmd := exec.Command("go", "list", "-f", "{{.Dir}}\n{{join .GoFiles \"\\n\"}}", dir)
			cmd.Dir = repo
			cmd.Env = append(os.Environ(), "GOOS="+tg.goos, "GOARCH="+tg.goarch, "CGO_ENABLED=0", "GOFLAGS=-mod=mod")
			out, err := cmd.Output()
			if err != nil {
				run.Count("exported_constants_probe_not_possible", 1)
				return
			}
			fl := strings.Split(strings.TrimSpace(string(out)), "\n")
			for _, f := range fl[1:] {
				fset := token.NewFileSet()
				af, err := parser.ParseFile(fset, filepath.Join(fl[0], f), nil, 0)
				if err != nil {
					continue
				}
				for _, d := range af.Decls {
					gd, ok := d.(*ast.GenDecl)
					if !ok || gd.Tok != token.CONST {
						continue
					}
					for _, sp := range gd.Specs {
						for _, id := range sp.(*ast.ValueSpec).Names {
							if id.IsExported() && !strings.HasPrefix(id.Name, "Verif") {
								lines = append(lines, fmt.Sprintf("\tp(%q, %s.%s)", alias+"."+id.Name, alias, id.Name))
							}
						}
					}
				}
			}
		}
		sort.Strings(lines)
		dir := filepath.Join(base, tg.goos+"_"+tg.goarch)
		os.MkdirAll(dir, 0o755)
		src := "package main\n\nimport (\n\t\"fmt\"\n\t\"reflect\"\n\n\tseccomp \"github.com/elastic/go-seccomp-bpf\"\n\t\"github.com/elastic/go-seccomp-bpf/arch\"\n)\n\nvar _ = arch.X86_64\nvar _ seccomp.Action\n\n" +
			"func p(name string, v interface{}) {\n\trv := reflect.ValueOf(v)\n\tswitch rv.Kind() {\n\tcase reflect.Int, reflect.Int8, reflect.Int16, reflect.Int32, reflect.Int64:\n\t\tfmt.Printf(\"%s=%d\\n\", name, rv.Int())\n" +
			"\tcase reflect.Uint, reflect.Uint8, reflect.Uint16, reflect.Uint32, reflect.Uint64, reflect.Uintptr:\n\t\tfmt.Printf(\"%s=%d\\n\", name, rv.Uint())\n\tcase reflect.String:\n\t\tfmt.Printf(\"%s=%q\\n\", name, rv.String())\n\tdefault:\n\t\tfmt.Printf(\"%s=%v\\n\", name, v)\n\t}\n}\n\nfunc main() {\n" +
			strings.Join(lines, "\n") + "\n}\n"
		os.WriteFile(filepath.Join(dir, "main.go"), []byte(src), 0o644)
		os.WriteFile(filepath.Join(dir, "go.mod"), []byte("module c19all\n\ngo 1.18\n\nrequire github.com/elastic/go-seccomp-bpf v0.0.0\n\nreplace github.com/elastic/go-seccomp-bpf => "+repo+"\n"), 0o644)
		copyFile(filepath.Join(dir, "go.sum"), filepath.Join(repo, "go.sum"))
		outp := filepath.Join(dir, "probe")
		cmd := exec.Command("go", "build", "-o", outp, ".")
		cmd.Dir = dir
		cmd.Env = append(os.Environ(), "GOOS="+tg.goos, "GOARCH="+tg.goarch, "CGO_ENABLED=0", "GOFLAGS=-mod=mod")
		if b, err := cmd.CombinedOutput(); err != nil {
			run.Count("exported_constants_probe_not_built:"+name, 1)
			run.Set("exported_constants_probe_build_output:"+name, tail(string(b), 300))
			continue
		}
		var runCmd *exec.Cmd
		if tg.goos == "js" {
			wasmExec := filepath.Join(goEnv("GOROOT"), "misc", "wasm", "wasm_exec_node.js")
			if _, err := os.Stat(wasmExec); err != nil {
				wasmExec = filepath.Join(goEnv("GOROOT"), "lib", "wasm", "wasm_exec_node.js")
			}
			runCmd = exec.Command("node", wasmExec, outp)
		} else {
			runCmd = exec.Command(outp)
		}
		var so bytes.Buffer
		runCmd.Stdout = &so
		if err := runCmd.Run(); err != nil {
			run.Count("exported_constants_probe_not_run:"+name, 1)
			continue
		}
		m := map[string]string{}
		for _, l := range strings.Split(so.String(), "\n") {
			if k := strings.Index(l, "="); k > 0 {
				m[l[:k]] = l[k+1:]
			}
		}
		values[name] = m
		run.Count("targets_with_all_exported_constants_printed", 1)
	}
	var names []string
	for n := range values {
		names = append(names, n)
	}
	sort.Strings(names)
	if len(names) < 2 {
		return
	}
	all := map[string]bool{}
	for _, m := range values {
		for k := range m {
			all[k] = true
		}
	}
	uapi := func(goName string) (uint64, bool) {
		// FilterFlagTSyncESRCH -> SECCOMP_FILTER_FLAG_TSYNC_ESRCH, ActionKillProcess -> SECCOMP_RET_KILL_PROCESS
		for k, v := range o.Constants {
			squash := strings.ReplaceAll(strings.TrimPrefix(k, "SECCOMP_"), "_", "")
			for _, pre := range []string{"seccomp.FilterFlag", "seccomp.Action"} {
				if !strings.HasPrefix(goName, pre) {
					continue
				}
				cls := map[string]string{"seccomp.FilterFlag": "FILTERFLAG", "seccomp.Action": "RET"}[pre]
				if strings.EqualFold(squash, cls+strings.TrimPrefix(goName, pre)) {
					return v, true
				}
			}
		}
		return 0, false
	}
	for k := range all {
		run.Count("exported_constants_compared_between_targets", 1)
		first := ""
		for _, n := range names {
			v, ok := values[n][k]
			if !ok {
				continue // not defined for that target
			}
			if first == "" {
				first = n
				if w, ok := uapi(k); ok {
					run.Count("exported_constants_compared_with_uapi_by_name", 1)
					if v != fmt.Sprint(w) {
						run.Violation("exported-constant-differs-from-uapi:"+k, fmt.Sprintf("%s: %s = %s, the kernel's UAPI constant of that name is %d", n, k, v, w), map[string]any{"check": "C19", "constant": k, "target": n})
					}
				}
				continue
			}
			if v != values[first][k] {
				run.Violation("exported-constant-differs-between-targets:"+k, fmt.Sprintf("%s is %s on %s and %s on %s", k, values[first][k], first, v, n), map[string]any{"check": "C19", "constant": k})
			}
		}
	}
	b, _ := json.Marshal(len(all))
	run.Set("exported_constants_found", string(b))
}
