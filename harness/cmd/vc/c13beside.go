package main

import (
	"fmt"
	"time"

	seccomp "github.com/elastic/go-seccomp-bpf"

	"verif/harness/vlib"
)

// c13BesideLoads: compilation must not depend on what else the process is doing - here: on loads that are in progress
// on other threads (a child process, because loaded filters stay). While two pinned threads load small policies with a
// pause injected between prctl and the seccomp call, another goroutine keeps compiling small, limit-sized and oversize
// policies and compares every result with what the same policy gave before the first load began.
func c13BesideLoads(run *vlib.Run, ts []*vlib.Target) {
	if vlib.SubRun() != "" {
		return
	}
	t := targetByName(ts, "x86_64")
	pols, probeNrs := c09Policies(t)
	bin, err := vlib.BuildHarnessCmd("vchild", "")
	if err != nil {
		run.Inconclusive("cannot build vchild: " + err.Error())
		return
	}
	beside := []vlib.PolicySpec{
		vlib.SpecOf(&seccomp.Policy{DefaultAction: vlib.RetAllow, Syscalls: []seccomp.SyscallGroup{{Names: []string{"getppid", "sync"}, Action: vlib.RetErrno}}}, t.Name),
		pols["max4096"],
	}
	for _, n := range []int{4097, 4300} {
		if p, l := exactSizePolicy(t, n); l == n {
			beside = append(beside, vlib.SpecOf(p, t.Name))
		}
	}
	n := run.N(8, 80)
	vlib.Parallel(n, func(i int) {
		cc := &vlib.ConcCase{Policies: map[string]vlib.PolicySpec{}, Probes: probeNrs, CompileBeside: true,
			GoMaxProcs: []int{0, 2, 4, 1}[i%4], HookSleepMicros: []int{2000, 10000, 20000}[i%3]}
		for k, b := range beside {
			cc.Policies[fmt.Sprintf("beside%d", k)] = b
		}
		id := 0
		for th := 0; th < 2; th++ {
			var plan []vlib.ConcLoad
			for k := 0; k < 2; k++ {
				plan = append(plan, vlib.ConcLoad{ID: id, Flags: []uint32{0, flagLog}[(i+k)%2], NNP: true})
				cc.Policies[fmt.Sprintf("valid%d", id)] = pols[fmt.Sprintf("valid%d", id)]
				id++
			}
			cc.Plans = append(cc.Plans, plan)
			cc.Jitter = append(cc.Jitter, 0)
		}
		res, err := vlib.RunChild(bin, "conc", &vlib.ChildCase{Conc: cc}, false, 60*time.Second)
		if err != nil || res.TimedOut || res.Line("done") == nil {
			run.SoftInconclusive(fmt.Sprintf("compile-beside-loads child did not finish: %v %s", err, tail(res.Stderr, 200)))
			return
		}
		l := res.Line("conc")
		run.Count("children_compiling_beside_loads", 1)
		run.Count("compilation_rounds_beside_loads", int64(jsonU64(l["beside_rounds"])))
		if m := fmt.Sprint(l["beside_mismatch"]); m != "" {
			run.Violation("compilation-depends-on-a-load-in-progress", "while other threads were loading filters, "+m, map[string]any{"check": "C13", "case": &vlib.ChildCase{Conc: cc}})
		}
	})
}
