package main

import (
	"fmt"
	"sort"
	"strings"
	"sync"
	"time"

	seccomp "github.com/elastic/go-seccomp-bpf"

	"verif/harness/vlib"
)

func init() { checks["C10"] = c10 }

func c10() {
	run := vlib.NewRun("C10", "exploration")
	_, ts := mustTargets(run)
	t := targetByName(ts, "x86_64")
	probeNr := uint64(t.Num["getppid"])
	spec := vlib.SpecOf(&seccomp.Policy{DefaultAction: vlib.RetAllow, Syscalls: []seccomp.SyscallGroup{{Names: []string{"getppid"}, Action: vlib.RetErrno}}}, "x86_64")

	var allow []string
	for _, nm := range t.Names {
		if nm != "getppid" {
			allow = append(allow, nm)
		}
	}
	longSpec := vlib.SpecOf(&seccomp.Policy{DefaultAction: vlib.RetErrno, Syscalls: []seccomp.SyscallGroup{{Names: allow, Action: vlib.RetAllow}}}, "x86_64")
	logSpec := vlib.SpecOf(&seccomp.Policy{DefaultAction: vlib.RetAllow, Syscalls: []seccomp.SyscallGroup{{Names: []string{"getppid"}, Action: vlib.RetErrno}, {Names: []string{"sync", "getpgrp"}, Action: vlib.RetLog}}}, "x86_64")
	states := []string{"spin", "probe", "sleep", "pipe", "futex"}
	sizes := []int{1, 2, 4, 8, 16, 32, 64}
	n := run.N(112, 4000)
	raceEvery := 4
	var mu sync.Mutex
	signatures := map[string]bool{}
	stateAtLoad := map[string]int64{}
	var threadsObserved, probesBefore, probesAfter, createdDuring, createdAfter int64
	raceReports := 0

	vlib.Parallel(n, func(i int) {
		r := caseRand(run, i)
		nthreads := sizes[i%len(sizes)]
		tc := &vlib.TSyncCase{ProbeNR: probeNr, LoaderSpin: []int{0, 10, 1000, 100000}[r.Intn(4)], GoMaxProcs: []int{1, 4, 16}[(i/7)%3], ProbesEach: 5 + r.Intn(20), SpawnAfter: r.Intn(6), Spawners: r.Intn(3)}
		if nthreads >= 32 && tc.GoMaxProcs == 1 {
			tc.GoMaxProcs = 2 // 64 spinning threads on one P only measure the scheduler's patience
		}
		for k := 0; k < nthreads; k++ {
			tc.Threads = append(tc.Threads, states[r.Intn(len(states))])
		}
		if i%5 == 0 { // all threads in the same state
			for k := range tc.Threads {
				tc.Threads[k] = states[(i/5)%len(states)]
			}
		}
		flags := uint32([]int{1, 3, 1, 0, 2, 1, 3}[i%7])
		divergent := i%6 == 4
		if divergent { // one thread carries a filter of its own: a thread-sync load must then not report success
			tc.Threads[r.Intn(len(tc.Threads))] = "ownfilter"
		}
		// the flag is requested through the package's named constants; the kernel values are the oracle's
		cc := &vlib.ChildCase{Policy: spec, NNP: i%3 != 1, TSync: tc}
		if i%4 == 2 { // a long program (early-return bridges) instead of the tiny one
			cc.Policy = longSpec
		}
		if i%5 == 1 { // a policy that uses the log action (not to be confused with the log flag)
			cc.Policy = logSpec
		}
		if flags&1 != 0 {
			cc.FlagNames = append(cc.FlagNames, "tsync")
		}
		if flags&2 != 0 {
			cc.FlagNames = append(cc.FlagNames, "log")
		}
		cc.Env = vlib.RuntimeKnobsGC[(i/3)%len(vlib.RuntimeKnobsGC)]
		if i%9 == 5 {
			cc.GCSpray = 1 + (i/9)%3
			run.Count("children_with_gc_and_allocation_spray_before_the_seccomp_call", 1)
		}
		variant := ""
		if i%raceEvery == 1 {
			variant = "race"
		}
		bin, err := vlib.BuildHarnessCmd("vchild", variant)
		if err != nil {
			run.Inconclusive("cannot build vchild " + variant + ": " + err.Error())
			return
		}
		strace := i%8 == 3 && variant == ""
		if i%5 == 2 && variant == "" {
			// hostile environment: the process sees another kernel release through uname(2); the kernel is what it is
			rel := vlib.FakeKernelReleases[(i/5)%len(vlib.FakeKernelReleases)]
			cc.StraceInject = vlib.UnamePoke(rel)
			strace = true
			run.Count("children_seeing_a_faked_kernel_release", 1)
		}
		if i%24 == 4 && variant == "" && !strace {
			// /proc is not mounted in the child's mount namespace: state snapshots are empty, the probes are judged as ever
			cc.NoProc = true
			run.Count("children_without_proc", 1)
		}
		if i%24 == 16 && variant == "" && !strace {
			cc.PidNamespace = true // a container's init: thread ids start at 1
			run.Count("children_as_process_1_of_a_pid_namespace", 1)
		}
		transient := i%12 == 10 && variant == ""
		if transient {
			// the first seccomp(2) call of every thread is interrupted (EINTR from the injector), later calls reach the kernel:
			// the load may fail; if it returns nil (e.g. after restarting the call) it is judged like any other load
			cc.StraceInject = append(cc.StraceInject, "-e", "inject=seccomp:error=EINTR:when=1")
			strace = true
			run.Count("children_with_a_transient_EINTR_on_the_first_seccomp_call", 1)
		}
		refusing := i%12 == 6 && variant == "" && !divergent && !transient && flags&1 != 0
		if refusing {
			// the kernel (as the process sees it) has no seccomp(2): every call is answered with ENOSYS (an old kernel, an
			// outer sandbox that hides the call). An error is the right answer; a nil result with thread-sync requested is
			// judged like any other: every thread must be filtered (a fallback through prctl(2) cannot synchronise threads)
			cc.StraceInject = append(cc.StraceInject, "-e", "inject=seccomp:error=ENOSYS")
			strace = true
			run.Count("children_whose_every_seccomp_call_is_answered_with_ENOSYS", 1)
		}
		sideLoad := i%12 == 2 && !divergent && !transient && !refusing && flags&1 != 0 && !cc.NoProc
		if sideLoad {
			// a schedule: while the judged load is between its steps, another thread loads a different policy with other
			// flags (and is gone again before the judged load goes on)
			tc.SideLoadAtHook = true
			run.Count("children_with_a_side_load_between_the_steps_of_the_judged_load", 1)
		}
		res, err := vlib.RunChild(bin, "tsync", cc, strace, 90*time.Second)
		desc := fmt.Sprintf("case %d: %d threads %v spawners=%d gomaxprocs=%d flags=%#x loader_spin=%d %s", i, nthreads, tc.Threads[:min(4, nthreads)], tc.Spawners, tc.GoMaxProcs, flags, tc.LoaderSpin, variant)
		if err != nil || res.TimedOut || res.Line("done") == nil {
			run.Count("watchdog_or_crash", 1)
			run.SoftInconclusive(fmt.Sprintf("tsync child did not finish (%s): %v %s", desc, err, tail(res.Stderr, 300)))
			return
		}
		run.Count("children", 1)
		replay := map[string]any{"check": "C10", "desc": desc, "case": cc}
		if variant == "race" {
			run.Count("children_under_race_detector", 1)
			if k := strings.Count(res.Stderr, "WARNING: DATA RACE"); k > 0 {
				mu.Lock()
				raceReports += k
				mu.Unlock()
				replay["stderr"] = tail(res.Stderr, 4000)
				run.Violation("data-race", fmt.Sprintf("%s: the race detector reports %d data race(s) while the loader runs next to %d threads: %s", desc, k, nthreads, tail(res.Stderr, 600)), replay)
				return
			}
		}
		l := res.Line("loaded")
		if ok, _ := l["ok"].(bool); !ok {
			if divergent && flags&1 != 0 {
				run.Count("thread_sync_refused_because_of_divergent_thread", 1) // no nil result: nothing to judge
				return
			}
			if transient {
				run.Count("transient_failure_surfaced_as_error", 1) // no nil result: nothing to judge
				return
			}
			if refusing {
				run.Count("missing_seccomp_call_surfaced_as_error", 1) // no nil result: nothing to judge
				return
			}
			if sideLoad {
				run.Count("loads_that_failed_next_to_a_side_load", 1) // e.g. the runtime cloned a thread from the side thread: no nil result, nothing to judge
				return
			}
			run.Inconclusive(fmt.Sprintf("load failed in tsync child (%s): %v", desc, l["err"]))
			return
		}
		if divergent {
			run.Count("loads_next_to_a_divergent_thread_returning_nil", 1)
		}
		if _, fl, ok := installedProgram(l, 0); ok && fl != flags {
			run.Violation("flags-modified", fmt.Sprintf("%s: Filter.Flag=%#x but %#x was handed to the kernel", desc, flags, fl), replay)
			return
		}
		if strace {
			for _, sc := range res.Strace {
				// only the loader's call: a thread that carries a filter of its own made a call of its own earlier
				if sc.Name == "seccomp" && len(sc.Args) > 1 && sc.Args[0] == 1 && fmt.Sprint(sc.Tid) == fmt.Sprint(jsonU64(l["loader_tid"])) {
					run.Count("flag_words_seen_at_syscall_boundary", 1)
					if uint32(sc.Args[1]) != flags {
						run.Violation("flags-modified-at-syscall", fmt.Sprintf("%s: Filter.Flag=%#x but the kernel received %#x", desc, flags, sc.Args[1]), replay)
						return
					}
				}
			}
		}
		loaderTid := fmt.Sprint(l["loader_tid"])
		after, _ := l["after"].(map[string]any)
		atLoad, _ := l["at_load"].(map[string]any)
		logs, _ := l["logs"].([]any)
		tsyncOn := flags&1 != 0
		var sigParts []string
		for _, li := range logs {
			m, _ := li.(map[string]any)
			tid := fmt.Sprint(m["tid"])
			state := fmt.Sprint(m["state"])
			created := fmt.Sprint(m["created"])
			bad := jsonU64(m["bad_after_flag"])
			filtered := jsonU64(m["filtered"])
			unfilt := jsonU64(m["unfiltered"])
			obs := fmt.Sprint(m["obs"])
			replay["thread_log"] = m
			if tsyncOn && bad > 0 {
				run.Violation("unfiltered-after-load:"+state, fmt.Sprintf("%s: thread %s (%s, created %s the load) read the loaded flag and then began %d probe syscall(s) that were not filtered (obs %s)", desc, tid, state, created, bad, obs[:min(len(obs), 80)]), replay)
				return
			}
			if !tsyncOn && created == "before" && state != "loader" && filtered > 0 {
				run.Violation("no-tsync-but-other-thread-filtered", fmt.Sprintf("%s: without thread-sync the pre-existing thread %s (%s) saw %d filtered probes", desc, tid, state, filtered), replay)
				return
			}
			if state == "loader" && filtered == 0 {
				run.Violation("loader-not-filtered", fmt.Sprintf("%s: the loading thread itself is not filtered", desc), replay)
				return
			}
			before := strings.Count(obs, "0") + strings.Count(obs, "1")
			mu.Lock()
			threadsObserved++
			probesBefore += int64(before)
			probesAfter += int64(len(obs) - before)
			switch created {
			case "during":
				createdDuring++
			case "after":
				createdAfter++
			}
			mu.Unlock()
			bucket := func(v uint64) uint64 {
				if v > 3 {
					return 3
				}
				return v
			}
			sigParts = append(sigParts, fmt.Sprintf("%s/%s/u%d/f%d", state, created, bucket(unfilt), bucket(uint64(strings.Count(obs, "1")))))
		}
		// the parent-visible state after the load
		for tid, v := range atLoad {
			m, _ := v.(map[string]any)
			if fmt.Sprint(m["Exiting"]) == "1" {
				run.Count("exiting_tasks_ignored_in_snapshots", 1)
				continue // the kernel skips tasks that are already exiting; they never run user code again
			}
			if tsyncOn && fmt.Sprint(m["Seccomp"]) != "2" {
				run.Violation("thread-without-filter-at-load", fmt.Sprintf("%s: right after LoadFilter returned nil with thread-sync, task %s has Seccomp=%v", desc, tid, m["Seccomp"]), replay)
				return
			}
		}
		for tid, v := range after {
			m, _ := v.(map[string]any)
			if fmt.Sprint(m["Exiting"]) == "1" {
				continue
			}
			if tsyncOn && fmt.Sprint(m["Seccomp"]) != "2" {
				run.Violation("thread-without-filter", fmt.Sprintf("%s: task %s has Seccomp=%v after a nil thread-sync load", desc, tid, m["Seccomp"]), replay)
				return
			}
			if !tsyncOn && tid == loaderTid && fmt.Sprint(m["Seccomp"]) != "2" {
				run.Violation("loader-not-filtered", fmt.Sprintf("%s: the loading task %s has Seccomp=%v", desc, tid, m["Seccomp"]), replay)
				return
			}
		}
		sort.Strings(sigParts)
		mu.Lock()
		signatures[strings.Join(sigParts, ",")] = true
		mu.Unlock()
		run.Count(fmt.Sprintf("children_flags_%#x", flags), 1)
		run.Count(fmt.Sprintf("children_threads_%d", nthreads), 1)
		if i == 3 || i == 10 {
			run.Sample(2, map[string]any{"desc": desc, "thread_states": tc.Threads, "threads_logged": len(logs), "signature": strings.Join(sigParts[:min(len(sigParts), 8)], ",")})
		}
	})
	_ = stateAtLoad
	run.Count("threads_observed", threadsObserved)
	run.Count("probes_begun_before_flag", probesBefore)
	run.Count("probes_begun_after_flag", probesAfter)
	run.Count("threads_created_during_load", createdDuring)
	run.Count("threads_created_after_load", createdAfter)
	run.Count("distinct_interleaving_signatures", int64(len(signatures)))
	run.Set("race_reports", raceReports)
	run.Assume("schedules are explored by stress (thread states, loader delay, GOMAXPROCS, repetition); the number of distinct interleaving signatures actually seen is reported, not all interleavings",
		"ordering is logical: a thread reads the atomic 'loaded' flag and only then begins the probe syscall; no wall clock decides")
	if run.Violations() == 0 {
		run.Require("children", int64(n*9/10))
		run.Require("distinct_interleaving_signatures", 2)
		run.Require("probes_begun_after_flag", 500)
		run.Require("probes_begun_before_flag", 10)
		run.Require("threads_created_after_load", 10)
		run.Require("children_under_race_detector", 5)
		run.Require("thread_sync_refused_because_of_divergent_thread", 1)
	}
	run.Finish(threadsObserved, int64(len(signatures)),
		"child processes with 1..64 pinned OS threads in PRNG mixes of states (spinning, tight probe loop, nanosleep, blocked in read, blocked in futex, carrying a divergent filter of its own) plus spawners creating threads during the load, loader delayed by a PRNG amount, GOMAXPROCS 1/4/16, flags 0..3; every thread logs (flag seen before the syscall began, filtered?) per probe; offline check: flag seen => filtered (thread-sync), pre-existing other threads never filtered (no thread-sync); /proc state of all tasks at load; flags word at hook and syscall boundary; every fourth child under the race detector; distinct = interleaving signatures")
}
