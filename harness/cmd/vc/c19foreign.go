package main

import (
	"bytes"
	"encoding/json"
	"fmt"
	"os"
	"os/exec"
	"path/filepath"
	"regexp"
	"sort"
	"strings"

	"verif/harness/vlib"
)

// runtimeSyscalls are system calls the Go runtime itself may issue on any
// thread at any time (scheduler, memory, signals, preemption); they are not
// attributed to the code between the markers.
var runtimeSyscalls = map[string]bool{"futex": true, "rt_sigreturn": true, "rt_sigprocmask": true, "sigaltstack": true, "mmap": true, "munmap": true,
	"madvise": true, "mprotect": true, "sched_yield": true, "nanosleep": true, "clock_nanosleep": true, "tgkill": true, "getpid": true, "gettid": true,
	"epoll_pwait": true, "epoll_wait": true, "clone": true, "clone3": true, "sched_getaffinity": true, "restart_syscall": true, "rt_sigaction": true, "membarrier": true, "set_robust_list": true, "rseq": true}

type pkgFiles struct {
	dir, name string
	files     []string
}

func c19ListFiles(goos, goarch string) (map[string]*pkgFiles, error) {
	cmd := exec.Command("go", "list", "-tags", "verif", "-f", "{{.Dir}}|{{.Name}}|{{join .GoFiles \" \"}}", ".", "./internal/unix", "./arch")
	cmd.Dir = vlib.RepoDir()
	cmd.Env = append(os.Environ(), "GOOS="+goos, "GOARCH="+goarch, "CGO_ENABLED=0", "GOFLAGS=-mod=mod")
	out, err := cmd.Output()
	if err != nil {
		return nil, err
	}
	res := map[string]*pkgFiles{}
	for _, l := range strings.Split(strings.TrimSpace(string(out)), "\n") {
		p := strings.SplitN(l, "|", 3)
		if len(p) == 3 {
			res[p[0]] = &pkgFiles{p[0], p[1], strings.Fields(p[2])}
		}
	}
	return res, nil
}

var constraintLine = regexp.MustCompile(`(?m)^(//go:build .*|// \+build .*)\n`)

// c19ForeignFileSetsOnHost executes, on this host, the package as another build
// target would compose it: a linux/amd64 build with an overlay in which the
// files the host selects and the target does not are emptied and the files the
// target selects and the host does not are added with their build constraints
// removed. It returns the selections that could be executed this way. The
// generic non-Linux selection is always executed as well (control; all system
// calls of the stubs traced natively instead of two of them under node).
func c19ForeignFileSetsOnHost(run *vlib.Run, harness, bin string, selection map[string][]string, uncovered map[string][]string, want map[string]uint64) map[string]bool {
	covered := map[string]bool{}
	host, err := c19ListFiles("linux", "amd64")
	if err != nil {
		run.Inconclusive("go list for the host target failed: " + err.Error())
		return covered
	}
	dir := filepath.Join(bin, "c19foreign")
	os.MkdirAll(dir, 0o755)
	defer os.RemoveAll(dir)
	report := map[string]any{}
	type job struct {
		sel     string
		tgs     []string
		control bool
	}
	var jobs []job
	if tgs := selection["seccomp_unsupported.go+types_other.go"]; len(tgs) > 0 {
		jobs = append(jobs, job{"seccomp_unsupported.go+types_other.go", tgs, true})
	}
	var sels []string
	for sel := range uncovered {
		sels = append(sels, sel)
	}
	sort.Strings(sels)
	for _, sel := range sels {
		jobs = append(jobs, job{sel, uncovered[sel], false})
	}
	for ji, jb := range jobs {
		rep := jb.tgs[0]
		for _, t := range jb.tgs { // prefer a 64-bit representative: the host build is linux/amd64
			if strings.HasSuffix(t, "/amd64") || strings.HasSuffix(t, "/arm64") {
				rep = t
				break
			}
		}
		p := strings.SplitN(rep, "/", 2)
		foreignLinux := p[0] == "linux"
		tf, err := c19ListFiles(p[0], p[1])
		if err != nil {
			run.Count("foreign_file_sets_not_listable", 1)
			continue
		}
		repl := map[string]string{}
		var emptied, added []string
		n := 0
		for d, hp := range host {
			tp := tf[d]
			if tp == nil {
				continue
			}
			inT, inH := map[string]bool{}, map[string]bool{}
			for _, f := range tp.files {
				inT[f] = true
			}
			for _, f := range hp.files {
				inH[f] = true
				if !inT[f] {
					np := filepath.Join(dir, fmt.Sprintf("j%d-empty-%d.go", ji, n))
					n++
					os.WriteFile(np, []byte("package "+hp.name+"\n"), 0o644)
					repl[filepath.Join(d, f)] = np
					emptied = append(emptied, f)
				}
			}
			for _, f := range tp.files {
				if !inH[f] {
					b, err := os.ReadFile(filepath.Join(d, f))
					if err != nil {
						continue
					}
					np := filepath.Join(dir, fmt.Sprintf("j%d-added-%d.go", ji, n))
					os.WriteFile(np, constraintLine.ReplaceAll(b, nil), 0o644)
					repl[filepath.Join(d, fmt.Sprintf("zzverifforeign%d.go", n))] = np
					n++
					added = append(added, f)
				}
			}
		}
		sort.Strings(emptied)
		sort.Strings(added)
		ov, _ := json.Marshal(map[string]any{"Replace": repl})
		ovPath := filepath.Join(dir, fmt.Sprintf("j%d-overlay.json", ji))
		os.WriteFile(ovPath, ov, 0o644)
		info := map[string]any{"representative_target": rep, "targets": jb.tgs, "host_files_emptied": emptied, "target_files_added_without_constraints": added}
		report[jb.sel] = info
		build := func(pkg, outp string) (string, error) {
			cmd := exec.Command("go", "build", "-tags", "verif", "-overlay", ovPath, "-o", outp, pkg)
			cmd.Dir = harness
			cmd.Env = append(os.Environ(), "GOOS=linux", "GOARCH=amd64")
			b, err := cmd.CombinedOutput()
			return string(b), err
		}
		stubBin := filepath.Join(dir, fmt.Sprintf("j%d-vstub", ji))
		constBin := filepath.Join(dir, fmt.Sprintf("j%d-vconst", ji))
		if out, err := build("./cmd/vstub", stubBin); err != nil {
			info["host_build"] = "fails: " + tail(out, 400)
			if jb.control {
				run.Inconclusive("the generic non-Linux file set does not build for the host through the overlay: " + tail(out, 300))
			} else {
				run.Count("foreign_file_sets_that_do_not_build_for_the_host", 1)
			}
			continue
		}
		if out, err := build("./cmd/vconst", constBin); err != nil {
			info["host_build"] = "constant probe fails: " + tail(out, 400)
			run.Count("foreign_file_sets_that_do_not_build_for_the_host", 1)
			continue
		}
		// constants as these files define them
		var so bytes.Buffer
		cc := exec.Command(constBin)
		cc.Stdout = &so
		if err := cc.Run(); err != nil {
			run.Inconclusive(fmt.Sprintf("constant probe of the file set %q did not run on the host: %v", jb.sel, err))
			continue
		}
		var m map[string]any
		d := json.NewDecoder(&so)
		d.UseNumber()
		if d.Decode(&m) != nil {
			run.Inconclusive("unreadable constant probe output for file set " + jb.sel)
			continue
		}
		consts, _ := m["constants"].(map[string]any)
		for k, w := range want {
			run.Count("constants_compared_in_file_sets_executed_on_the_host", 1)
			if got, ok := consts[k]; !ok || jsonU64(got) != w {
				run.Violation("constant:"+k, fmt.Sprintf("file set %q (targets %v) executed on the host: %s = %v, the kernel's UAPI value is %d (%#x)", jb.sel, jb.tgs, k, got, w, w), map[string]any{"check": "C19", "file_set": jb.sel, "constant": k})
			}
		}
		if foreignLinux {
			covered[jb.sel] = true
			run.Count("file_sets_executed_on_the_host", 1)
			continue
		}
		// the stubs between the markers, every system call traced
		st := filepath.Join(dir, fmt.Sprintf("j%d.strace", ji))
		var sout, serr bytes.Buffer
		sc := exec.Command("timeout", "-s", "KILL", "60", "strace", "-f", "-o", st, stubBin)
		sc.Stdout, sc.Stderr = &sout, &serr
		if err := sc.Run(); err != nil {
			run.Inconclusive(fmt.Sprintf("stub probe of the file set %q did not run under strace: %v: %s", jb.sel, err, tail(serr.String(), 200)))
			continue
		}
		var sm map[string]any
		if json.Unmarshal(sout.Bytes(), &sm) != nil {
			run.Inconclusive("unreadable stub probe output for file set " + jb.sel)
			continue
		}
		tb, _ := os.ReadFile(st)
		tid, inWin, sawBegin, sawEnd, markerOpen := "", false, false, false, false
		var between []string
		for _, l := range strings.Split(string(tb), "\n") {
			f := strings.SplitN(l, " ", 2)
			if len(f) < 2 {
				continue
			}
			rest := strings.TrimSpace(f[1])
			if strings.HasPrefix(rest, "getpriority(") && strings.Contains(rest, "31337") || strings.HasPrefix(rest, "getpriority(0x7a69") {
				if strings.Contains(rest, ", 81") {
					tid, inWin, sawBegin = f[0], true, true
				} else if strings.Contains(rest, ", 82") && f[0] == tid {
					inWin, sawEnd = false, true
				}
				markerOpen = strings.Contains(rest, "<unfinished")
				continue
			}
			if markerOpen && f[0] == tid && strings.HasPrefix(rest, "<... getpriority resumed") {
				markerOpen = false // the second half of a marker line that strace split
				continue
			}
			if !inWin || f[0] != tid || strings.HasPrefix(rest, "---") || strings.HasPrefix(rest, "+++") {
				continue
			}
			name := rest
			if strings.HasPrefix(rest, "<... ") {
				name = strings.Fields(rest[5:])[0]
			} else if k := strings.IndexByte(rest, '('); k > 0 {
				name = rest[:k]
			}
			if !runtimeSyscalls[name] {
				between = append(between, name)
			}
		}
		if !sawBegin || !sawEnd {
			run.Inconclusive(fmt.Sprintf("the markers of the stub probe are not in the trace of file set %q", jb.sel))
			continue
		}
		info["stub_results"] = sm
		info["system_calls_between_markers"] = between
		run.Count("file_sets_executed_on_the_host", 1)
		run.Count("stub_file_sets_traced_between_markers", 1)
		run.Count("system_calls_issued_by_stubs_between_markers", int64(len(between)))
		covered[jb.sel] = true
		replay := map[string]any{"check": "C19", "file_set": jb.sel, "targets": jb.tgs, "files_added": added, "stub_results": sm, "system_calls": between}
		if sup, _ := sm["supported"].(bool); sup {
			run.Violation("stub-reports-supported", fmt.Sprintf("file set %q (targets %v) executed on the host: Supported() is true on a non-Linux target", jb.sel, jb.tgs), replay)
		}
		if sup, _ := sm["supported_after_loads"].(bool); sup {
			run.Violation("stub-reports-supported", fmt.Sprintf("file set %q (targets %v) executed on the host: Supported() is true on a non-Linux target once LoadFilter has been called", jb.sel, jb.tgs), replay)
		}
		if len(between) > 0 {
			run.Violation("stub-performs-system-call", fmt.Sprintf("file set %q (non-Linux targets %v) executed on the host: Supported/SetNoNewPrivs/LoadFilter issued %v between the markers", jb.sel, jb.tgs, between), replay)
		}
	}
	run.Set("file_sets_executed_on_the_host_through_overlay", report)
	return covered
}
