package main

import (
	"bufio"
	"bytes"
	"encoding/json"
	"fmt"
	"math/rand"
	"os"
	"os/exec"
	"path/filepath"
	"runtime"
	"sort"
	"strings"
	"sync"
	"syscall"
	"time"

	"github.com/elastic/go-seccomp-bpf/arch"
	"github.com/elastic/go-seccomp-bpf/cmd/seccomp-profiler/disasm"

	"verif/harness/vlib"
)

func init() {
	checks["C16"] = c16
	checks["c16-worker"] = c16Worker
}

// ---- site model -----------------------------------------------------------

type site struct {
	Kind    string // raw, call, xor, decoy (two loads, the later counts), wrapper (inside a wrapper function: ignored), orphan (trap without load in this function)
	Num     int
	Decoy   int
	Wrapper string // for call sites
	Gap     int    // filler lines between load and trap
}

type function struct {
	Name  string
	Items []any // string (filler line) or site
	// Header: 0 = "TEXT name(SB) file" as go tool objdump prints it; 1 = a bare
	// "TEXT" line; 2 = tab-separated "TEXT<TAB>name<TAB>file". Every line that
	// begins with the marker word starts a function (as on the pinned tree).
	Header int
}

func usesHeaderVariants(funcs []function) bool {
	for _, f := range funcs {
		if f.Header != 0 {
			return true
		}
	}
	return false
}

var wrappers = []string{"syscall.Syscall(SB)", "syscall.Syscall6(SB)", "syscall.RawSyscall(SB)", "syscall.RawSyscall6(SB)", "syscall.rawVforkSyscall(SB)",
	"unix.RawSyscall(SB)", "unix.RawSyscall6(SB)", "unix.RawSyscallNoError(SB)", "unix.Syscall(SB)", "unix.Syscall6(SB)", "unix.Syscall9(SB)", "unix.SyscallNoError(SB)"}

var fillers = []string{"MOVQ BX, 0x10(SP)", "ADDQ $0x8, SP", "LEAQ 0x20(SP), DI", "MOVQ $0x5, 0x8(SP)", "MOVQ $0x7, BX", "CMPQ 0x10(R14), SP", "JBE 0x45e0f5",
	"XORL CX, CX", "MOVL $0x1, CX", "CALL runtime.morestack_noctxt(SB)", "NOPL 0(AX)(AX*1)", "MOVQ 0x18(SP), AX", "RET", "PUSHQ BP", "MOVQ SP, BP", "SUBQ $0x28, SP", "MOVUPS X15, 0x30(SP)"}

type expected struct {
	Num    int
	Caller string
}

// render writes the listing in `go tool objdump` layout and returns the
// expected (Num, Caller) multiset for the given table.
func renderListing(funcs []function, i386 bool, table map[int]string, r *rand.Rand) (string, []expected) {
	var b strings.Builder
	var exp []expected
	addr := 0x401000
	stick, stickLine := 0, 0
	line := func(fn int, asm string) {
		addr += 3
		loc := fmt.Sprintf("file%d.go", fn)
		if r.Intn(250) == 0 {
			// a very long source path: the line is some kilobytes long (well below the 64 KiB a line may have), so that the
			// decisive text lies around a multiple of the 4096-byte read buffer
			target := []int{4096, 4096, 8192, 12288, 16384, 32768, 20000, 50000}[r.Intn(8)] - 70 + r.Intn(90)
			loc = "/src/" + strings.Repeat("very-long-directory-name/", target/25+1)[:target] + loc
		}
		ln := 10 + addr%90
		if stick == 0 && r.Intn(80) == 0 {
			stick, stickLine = 3+r.Intn(14), 1+r.Intn(30) // inlined code: the next lines all carry one source position
		}
		if stick > 0 {
			stick--
			loc, ln = "inlined_helper.go", stickLine
		}
		fmt.Fprintf(&b, "  %s:%d\t\t0x%x\t\t%x\t\t%s\t\n", loc, ln, addr, uint64(addr)*2654435761&0xffffffffff, asm)
	}
	trap := func() string {
		if i386 {
			return []string{"INT $0x80", "SYSENTER"}[r.Intn(2)]
		}
		return "SYSCALL"
	}
	mov := func() string { return []string{"MOVL", "MOVQ", "MOV"}[r.Intn(3)] }
	num := func(n int) string {
		if r.Intn(2) == 0 {
			return fmt.Sprintf("$0x%x", n)
		}
		return fmt.Sprintf("$%d", n)
	}
	for fi, f := range funcs {
		switch f.Header {
		case 1:
			fmt.Fprintf(&b, "TEXT\n")
		case 2:
			fmt.Fprintf(&b, "TEXT\t%s\t/src/file%d.go\n", f.Name, fi)
		default:
			fmt.Fprintf(&b, "TEXT %s /src/file%d.go\n", f.Name, fi)
		}
		isWrapper := false
		for _, w := range wrappers {
			if strings.Contains(f.Name, w) && f.Header != 1 {
				isWrapper = true
			}
		}
		for _, it := range f.Items {
			switch v := it.(type) {
			case string:
				line(fi, v)
			case site:
				gap := func() {
					for g := 0; g < v.Gap; g++ {
						line(fi, fillers[r.Intn(len(fillers))])
					}
				}
				found := true
				n := v.Num
				switch v.Kind {
				case "raw":
					line(fi, fmt.Sprintf("%s %s, %s", mov(), num(v.Num), []string{"AX", "AX", "BP"}[r.Intn(3)]))
					gap()
					line(fi, trap())
					found = !isWrapper
				case "decoy":
					line(fi, fmt.Sprintf("%s %s, AX", mov(), num(v.Decoy)))
					gap()
					line(fi, fmt.Sprintf("%s %s, AX", mov(), num(v.Num)))
					line(fi, trap())
					found = !isWrapper
				case "call":
					line(fi, fmt.Sprintf("%s %s, 0(SP)", mov(), num(v.Num)))
					gap()
					line(fi, "CALL "+v.Wrapper)
				case "xor":
					line(fi, "XORL AX, AX")
					line(fi, trap())
					n = 0
					found = !isWrapper
				case "orphan":
					line(fi, trap())
					found = false
				case "dangling":
					switch r.Intn(3) {
					case 0:
						line(fi, fmt.Sprintf("%s %s, AX", mov(), num(v.Num)))
					case 1:
						line(fi, fmt.Sprintf("%s %s, 0(SP)", mov(), num(v.Num)))
					default:
						line(fi, "XORL AX, AX") // "number 0" that no trap of this function consumes
					}
					found = false
				}
				if _, ok := table[n]; found && ok {
					exp = append(exp, expected{n, f.Name + fmt.Sprintf(" /src/file%d.go", fi)})
				}
			}
		}
	}
	return b.String(), exp
}

func genFunctions(r *rand.Rand, nf int, table map[int]string) []function {
	return genFunctionsOpt(r, nf, table, true)
}

// genFunctionsOpt: allowHuge=false keeps every function small (bases of the truncation and mutation sweeps).
func genFunctionsOpt(r *rand.Rand, nf int, table map[int]string, allowHuge bool) []function {
	var nums []int
	for n := range table {
		nums = append(nums, n)
	}
	sort.Ints(nums)
	pickNum := func() int {
		if r.Intn(12) == 0 {
			// not in the table: must be dropped, not reported - far away, or a table number with one high bit set (the x32
			// bit among them)
			if r.Intn(2) == 0 {
				return nums[r.Intn(len(nums))] | 1<<uint([]int{30, 30, 29, 28, 20, 16, 12}[r.Intn(7)])
			}
			return 100000 + r.Intn(1000)
		}
		return nums[r.Intn(len(nums))]
	}
	var funcs []function
	for fi := 0; fi < nf; fi++ {
		f := function{Name: fmt.Sprintf("main.f%d(SB)", fi)}
		switch r.Intn(12) {
		case 0:
			f.Name = "syscall.Syscall(SB)" // the wrapper itself: raw traps inside are not sites
		case 1:
			f.Name = fmt.Sprintf("golang.org/x/sys/unix.RawSyscall6(SB)")
		case 2:
			f.Name = fmt.Sprintf("github.com/x/y.(*T).Method%d(SB)", fi)
		}
		nItems := r.Intn(12)
		if allowHuge && r.Intn(200) == 0 {
			nItems = 4000 + r.Intn(2500) // a huge function (thousands of lines without marker; more than any fixed-size window)
		}
		orphanFirst := r.Intn(6) == 0
		if r.Intn(10) == 0 {
			f.Header = 1 + r.Intn(2)
			orphanFirst = r.Intn(2) == 0
		}
		if orphanFirst && len(funcs) > 0 && r.Intn(2) == 0 {
			// the function before ends with a number load that nothing there consumes, directly in front of this function's marker
			prev := &funcs[len(funcs)-1]
			if len(prev.Items) < 1000 {
				prev.Items = append(prev.Items, site{Kind: "dangling", Num: pickNum()})
			}
		}
		for k := 0; k < nItems; k++ {
			if nItems > 1000 {
				// a huge function: thousands of lines without marker and without a complete site; only number loads that
				// nothing consumes
				if r.Intn(300) == 0 {
					f.Items = append(f.Items, site{Kind: "dangling", Num: pickNum()})
				} else {
					f.Items = append(f.Items, fillers[r.Intn(len(fillers))])
				}
				continue
			}
			if r.Intn(3) != 0 {
				f.Items = append(f.Items, fillers[r.Intn(len(fillers))])
				continue
			}
			if r.Intn(8) == 0 {
				// a number load that no trap of this function consumes: it must never be picked up by a later function
				f.Items = append(f.Items, site{Kind: "dangling", Num: pickNum()})
				continue
			}
			s := site{Num: pickNum(), Gap: r.Intn(5)}
			switch r.Intn(200) {
			case 0, 1, 2, 3, 4: // the number is loaded far ahead of the trap (the search goes back through the whole function)
				s.Gap = []int{16, 63, 64, 65, 126, 127, 128, 129, 255, 256, 257, 511, 512, 513}[r.Intn(14)]
			case 5:
				if allowHuge {
					s.Gap = []int{1000, 1023, 1024, 1025, 4095, 4096, 4097, 5000}[r.Intn(8)]
				}
			}
			switch r.Intn(6) {
			case 0, 1:
				s.Kind = "raw"
			case 2:
				s.Kind = "call"
				s.Wrapper = wrappers[r.Intn(len(wrappers))]
			case 3:
				s.Kind = "xor"
			case 4:
				s.Kind = "decoy"
				s.Decoy = pickNum()
			default:
				s.Kind = "call"
				s.Wrapper = wrappers[r.Intn(len(wrappers))]
			}
			if orphanFirst && len(f.Items) == 0 {
				// a trap as the first instruction of the function: the number load
				// visible before it belongs to the previous function
				s = site{Kind: "orphan"}
			}
			f.Items = append(f.Items, s)
		}
		if orphanFirst && len(f.Items) == 0 {
			f.Items = append(f.Items, site{Kind: "orphan"})
		}
		funcs = append(funcs, f)
	}
	return funcs
}

// ---- worker ----------------------------------------------------------------

type c16Result struct {
	File     string           `json:"file"`
	Arch     string           `json:"arch"`
	Begin    bool             `json:"begin,omitempty"`
	Err      string           `json:"err,omitempty"`
	Nil      bool             `json:"nil_error"`
	Panic    string           `json:"panic,omitempty"`
	Syscalls []disasm.Syscall `json:"syscalls"`
	// DeliveryDiff: the same text handed over through a FIFO or a pipe (paths whose size is unknown in advance) gave
	// another result than the regular file
	DeliveryDiff string `json:"delivery_diff,omitempty"`
}

// deliver hands the text of the regular file to the extractor through a FIFO next to it or through a pipe
// addressed as /proc/self/fd/N, written in uneven chunks.
func deliver(how, archName, path string) c16Result {
	text, err := os.ReadFile(path)
	if err != nil {
		return c16Result{Err: "harness: " + err.Error()}
	}
	feed := func(w *os.File) {
		defer w.Close()
		for off, k := 0, 0; off < len(text); k++ {
			n := []int{1, 7, 100, 4095, 4096, 4097, 65536, 300000}[k%8]
			if off+n > len(text) {
				n = len(text) - off
			}
			if _, err := w.Write(text[off : off+n]); err != nil {
				return
			}
			off += n
			if k%3 == 0 {
				runtime.Gosched()
			}
		}
	}
	switch how {
	case "fifo":
		fp := path + ".fifo"
		os.Remove(fp)
		if err := syscall.Mkfifo(fp, 0o644); err != nil {
			return c16Result{Err: "harness: " + err.Error()}
		}
		defer os.Remove(fp)
		go func() {
			if w, err := os.OpenFile(fp, os.O_WRONLY, 0); err == nil {
				feed(w)
			}
		}()
		res := extractOne(archName, fp)
		// release a writer that was never met by a reader
		if r, err := os.OpenFile(fp, os.O_RDONLY|syscall.O_NONBLOCK, 0); err == nil {
			r.Close()
		}
		return res
	default: // pipe
		r, w, err := os.Pipe()
		if err != nil {
			return c16Result{Err: "harness: " + err.Error()}
		}
		go feed(w)
		res := extractOne(archName, fmt.Sprintf("/proc/self/fd/%d", r.Fd()))
		r.Close()
		return res
	}
}

func extractOne(archName, path string) (res c16Result) {
	if k := strings.Index(archName, "@"); k > 0 {
		how := archName[k+1:]
		res = extractOne(archName[:k], path)
		res.Arch = archName
		if res.Panic == "" {
			alt := deliver(how, archName[:k], path)
			switch {
			case strings.HasPrefix(alt.Err, "harness: "):
				res.DeliveryDiff = alt.Err
			case alt.Panic != "":
				res.DeliveryDiff = "through a " + how + ": panic: " + alt.Panic
			case alt.Nil != res.Nil || fmt.Sprint(alt.Syscalls) != fmt.Sprint(res.Syscalls):
				res.DeliveryDiff = fmt.Sprintf("through a %s: nil error=%v (%s), %d syscalls; from the regular file: nil error=%v (%s), %d syscalls", how, alt.Nil, alt.Err, len(alt.Syscalls), res.Nil, res.Err, len(res.Syscalls))
			}
		}
		return res
	}
	res = c16Result{File: path, Arch: archName}
	info := arch.X86_64
	switch archName {
	case "i386":
		info = arch.I386
	case "x32":
		info = arch.X32 // shares the audit architecture with x86_64 and is accepted by ExtractSyscalls
	case "arm":
		info = arch.ARM // not supported by the extractor: must be an error
	}
	defer func() {
		if e := recover(); e != nil {
			res.Panic = fmt.Sprint(e)
		}
	}()
	sc, err := disasm.ExtractSyscalls(info, path)
	res.Syscalls = sc
	res.Nil = err == nil
	if err != nil {
		res.Err = err.Error()
	}
	return
}

var keepStderr *os.File

// c16Worker: vc c16-worker <listfile>; the list holds "arch<TAB>path" lines.
// Every input exists on disk before it is parsed and its name is logged
// before the call, so a runtime fatal names its input.
func c16Worker() {
	devnull, _ := os.OpenFile("/dev/null", os.O_WRONLY, 0)
	if devnull != nil {
		// the parser's WARN lines. The original value stays referenced: were it collected, its finalizer would close
		// descriptor 2, a later pipe would get that number, and Go ends the process on EPIPE for descriptors 1 and 2.
		keepStderr = os.Stderr
		os.Stderr = devnull
	}
	f, err := os.Open(os.Args[2])
	if err != nil {
		fmt.Println(`{"harness_error":"cannot open list"}`)
		os.Exit(4)
	}
	out := bufio.NewWriter(os.Stdout)
	sc := bufio.NewScanner(f)
	for sc.Scan() {
		parts := strings.SplitN(sc.Text(), "\t", 2)
		if len(parts) != 2 {
			continue
		}
		b, _ := json.Marshal(c16Result{File: parts[1], Arch: parts[0], Begin: true})
		out.Write(b)
		out.WriteByte('\n')
		out.Flush()
		done := make(chan c16Result, 1)
		go func() { done <- extractOne(parts[0], parts[1]) }()
		var res c16Result
		select {
		case res = <-done:
		case <-time.After(60 * time.Second):
			res = c16Result{File: parts[1], Arch: parts[0], Panic: "TIMEOUT: extraction did not terminate within 60s"}
		}
		b, _ = json.Marshal(res)
		out.Write(b)
		out.WriteByte('\n')
		out.Flush()
	}
}

// ---- check -----------------------------------------------------------------

type c16Case struct {
	kind   string
	arch   string
	text   []byte
	isDir  bool
	exp    []expected // nil: no expectation on content
	hasExp bool
	// numOnly: the listing uses header variants whose caller text is not defined
	// by go tool objdump; only the numbers are compared
	numOnly bool
	// mustError: the text cannot be read to the end; a nil error is a violation
	mustError bool
	// prefixOf: index of the case this one is a function-boundary prefix of
	prefixOf int
	path     string
	// delivery: the worker also hands the same text over through a "fifo" or a "pipe" and compares
	delivery string
	// size, nFuncs: kept when the text itself is dropped from memory after it was written to its file
	size, nFuncs int
}

func c16() {
	run := vlib.NewRun("C16", "exploration")
	o, err := vlib.LoadOracles()
	if err != nil {
		run.Inconclusive(err.Error())
		run.Finish(0, 0, "")
	}
	tables := map[string]map[int]string{"x86_64": {}, "i386": {}}
	for a, t := range tables {
		for name, nr := range o.Tables[a]["uapi"] {
			t[nr] = name
		}
	}
	dir := filepath.Join(vlib.BinDir(), "c16")
	os.MkdirAll(dir, 0o755)
	defer os.RemoveAll(dir)

	var cases []*c16Case
	// every input is written to its file when it is added and then dropped from memory (a thorough run has some 300 000 texts)
	var sampleHead []string
	add := func(c *c16Case) int {
		c.prefixOf = -1
		i := len(cases)
		cases = append(cases, c)
		c.path = filepath.Join(dir, fmt.Sprintf("in-%d.txt", i))
		if !c.isDir && (c.arch == "x86_64" || c.arch == "i386") && i%5 == 2 {
			c.delivery = []string{"fifo", "pipe"}[(i/5)%2]
		}
		if c.isDir {
			os.MkdirAll(c.path, 0o755)
		} else if err := os.WriteFile(c.path, c.text, 0o644); err != nil {
			run.Inconclusive("cannot write input: " + err.Error())
		}
		c.size, c.nFuncs = len(c.text), strings.Count(string(c.text), "TEXT ")
		if i == 0 {
			sampleHead = strings.Split(string(c.text), "\n")
			sampleHead = sampleHead[:min(8, len(sampleHead))]
		}
		c.text = nil
		return i
	}
	r0 := caseRand(run, 0)

	// (0) calls for other architectures interleaved with the judged ones (same process): they must not influence
	// what later x86_64/i386 extractions report
	for w := 0; w < 64; w++ {
		txt, _ := renderListing(genFunctionsOpt(r0, 4, tables["x86_64"], false), false, tables["x86_64"], r0)
		add(&c16Case{kind: "other-arch-call", arch: []string{"x32", "arm", "x32", "i386"}[w%4], text: []byte(txt)})
	}
	// (1) model-generated listings, with function-boundary prefixes
	nModel := run.N(6000, 120000)
	for i := 0; i < nModel; i++ {
		r := caseRand(run, 1+i)
		a := []string{"x86_64", "i386"}[i%2]
		nf := 1 + r.Intn(12)
		if i%50 == 0 {
			nf = 100 + r.Intn(100)
		}
		funcs := genFunctions(r, nf, tables[a])
		seedR := r.Int63()
		text, exp := renderListing(funcs, a == "i386", tables[a], rand.New(rand.NewSource(seedR)))
		full := add(&c16Case{kind: "model", arch: a, text: []byte(text), exp: exp, hasExp: true, numOnly: usesHeaderVariants(funcs)})
		if nf > 1 && i%3 == 0 {
			k := 1 + r.Intn(nf-1)
			ptext, pexp := renderListing(funcs[:k], a == "i386", tables[a], rand.New(rand.NewSource(seedR)))
			pi := add(&c16Case{kind: "model-prefix", arch: a, text: []byte(ptext), exp: pexp, hasExp: true, numOnly: usesHeaderVariants(funcs[:k])})
			cases[pi].prefixOf = full
		}
	}
	// (1b) very large listings (thorough: 3000 and 40000 functions, tens of MB) and the smallest ones
	for _, nf := range []int{0, 1, run.N(800, 3000), run.N(0, 40000)} {
		r := caseRand(run, 777+nf)
		funcs := genFunctions(r, nf, tables["x86_64"])
		text, exp := renderListing(funcs, false, tables["x86_64"], r)
		add(&c16Case{kind: "model-size-extreme", arch: "x86_64", text: []byte(text), exp: exp, hasExp: true, numOnly: usesHeaderVariants(funcs)})
	}
	// (2) hostile lines
	base, _ := renderListing(genFunctionsOpt(r0, 6, tables["x86_64"], false), false, tables["x86_64"], r0)
	hostile := []string{}
	marker := "TEXT main.f(SB) /src/a.go"
	for k := 0; k <= len(marker); k++ {
		hostile = append(hostile, marker[:k])
	}
	for _, trig := range []string{"SYSCALL", "INT $0x80", "SYSENTER", "CALL syscall.Syscall(SB)", "CALL unix.Syscall6(SB)", "XORL AX, AX"} {
		hostile = append(hostile, trig, " "+trig, "a "+trig, "a b "+trig, "a b c "+trig, trig+" x", "\t"+trig+"\t", trig+trig)
	}
	hostile = append(hostile, "  f.go:1\t0x1\tff\tMOVQ $0x7fffffffffffffff, AX", "  f.go:1\t0x1\tff\tMOVQ $-1, AX", "  f.go:1\t0x1\tff\tMOVQ $0x, AX", "  f.go:1\t0x1\tff\tMOVQ $99999999999999999999999, AX",
		"  f.go:1\t0x1\tff\tMOVQ $, AX", "  f.go:1\t0x1\tff\tMOVQ $0x3, 0(SP)", "  f.go:1\t0x1\tff\tMOVQ $abc, 0(SP)", "\x00\x00\x00", "\xff\xfe\xfd SYSCALL", "TEXT", "TEXT ", "TEXT\t", "TEXTX", "TEX")
	for hi, h := range hostile {
		for _, a := range []string{"x86_64", "i386"} {
			// the hostile line alone, after a load, and inside a valid listing
			add(&c16Case{kind: "hostile-line", arch: a, text: []byte(h)})
			add(&c16Case{kind: "hostile-line", arch: a, text: []byte(h + "\n")})
			add(&c16Case{kind: "hostile-line", arch: a, text: []byte("TEXT main.g(SB) /src/g.go\n  g.go:1\t0x1\tb8\tMOVL $0x1, AX\n  g.go:1\t0x1\tb8\tMOVQ $0x1, 0(SP)\n" + h + "\n" + h + "\r\n")})
			if hi%4 == 0 {
				add(&c16Case{kind: "hostile-line", arch: a, text: []byte(base + h + "\n" + base)})
			}
		}
	}
	// very long lines: the text cannot be read to the end with a 64 KiB line limit
	for _, n := range []int{65535, 65536, 65537, 70000, 1000000} {
		for _, nl := range []string{"", "\n"} {
			long := strings.Repeat("x", n)
			add(&c16Case{kind: "long-line", arch: "x86_64", text: []byte(base + long + nl + base), mustError: n >= 65536})
			add(&c16Case{kind: "long-line", arch: "i386", text: []byte(long + nl), mustError: n >= 65536})
		}
	}
	// the same behind exactly N readable lines (a reader that works in batches of lines or bytes has its boundaries somewhere)
	for _, nLines := range []int{1, 2, 3, 63, 64, 65, 127, 128, 129, 255, 256, 257, 511, 512, 513, 1023, 1024, 1025, 2047, 2048, 2049, 3072, 4095, 4096, 4097, 8192, 10000} {
		var sb strings.Builder
		sb.WriteString("TEXT main.batch(SB) /src/batch.go\n")
		for k := 1; k < nLines; k++ {
			if k%2 == 1 {
				sb.WriteString("  batch.go:1\t0x1\tb8\tMOVL $0x27, AX\n")
			} else {
				sb.WriteString("  batch.go:2\t0x2\t0f05\tSYSCALL\n")
			}
		}
		a := []string{"x86_64", "i386"}[nLines%2]
		add(&c16Case{kind: "long-line", arch: a, text: []byte(sb.String() + strings.Repeat("y", 70000) + "\n" + base), mustError: true})
		run.Count("overlong_lines_behind_a_chosen_number_of_lines", 1)
	}
	// a directory instead of a file: read fails with EISDIR
	add(&c16Case{kind: "directory", arch: "x86_64", isDir: true, mustError: true})
	add(&c16Case{kind: "directory", arch: "i386", isDir: true, mustError: true})
	// (3) truncation of a valid listing at every byte offset (short) / line boundary (long)
	short, _ := renderListing(genFunctionsOpt(r0, 3, tables["x86_64"], false), false, tables["x86_64"], r0)
	for k := 0; k <= len(short); k++ {
		if !run.Thorough() && k%3 != 0 {
			continue
		}
		add(&c16Case{kind: "truncated-byte", arch: "x86_64", text: []byte(short[:k])})
	}
	longL, _ := renderListing(genFunctionsOpt(r0, 60, tables["i386"], false), true, tables["i386"], r0)
	off := 0
	for _, l := range strings.SplitAfter(longL, "\n") {
		off += len(l)
		add(&c16Case{kind: "truncated-line", arch: "i386", text: []byte(longL[:off])})
	}
	// (4) byte-level mutation of valid listings
	nMut := run.N(6000, 200000)
	for i := 0; i < nMut; i++ {
		r := caseRand(run, 5000000+i)
		a := []string{"x86_64", "i386"}[i%2]
		text, _ := renderListing(genFunctionsOpt(r, 1+r.Intn(5), tables[a], false), a == "i386", tables[a], r)
		b := []byte(text)
		for m := 0; m < 1+r.Intn(8) && len(b) > 0; m++ {
			p := r.Intn(len(b))
			switch r.Intn(5) {
			case 0:
				b[p] = byte(r.Intn(256))
			case 1:
				b = append(b[:p], b[min(len(b), p+1+r.Intn(20)):]...)
			case 2:
				b[p] = '\n'
			case 3:
				b[p] = ' '
			default:
				ins := []string{"TEXT", "SYSCALL", "\t", "CALL syscall.Syscall(SB)", "$", ", AX", "INT $0x80"}[r.Intn(7)]
				b = append(b[:p], append([]byte(ins), b[p:]...)...)
			}
		}
		add(&c16Case{kind: "mutated", arch: a, text: b})
	}

	// write inputs, run workers
	nWorkers := 16
	lists := make([][]int, nWorkers)
	for i := range cases {
		lists[i%nWorkers] = append(lists[i%nWorkers], i)
	}
	results := make([]*c16Result, len(cases))
	var mu sync.Mutex
	var wg sync.WaitGroup
	for w := 0; w < nWorkers; w++ {
		wg.Add(1)
		go func(w int) {
			defer wg.Done()
			todo := lists[w]
			for len(todo) > 0 {
				listPath := filepath.Join(dir, fmt.Sprintf("list-%d.txt", w))
				var lb bytes.Buffer
				byPath := map[string]int{}
				for _, i := range todo {
					a := cases[i].arch
					if cases[i].delivery != "" {
						a += "@" + cases[i].delivery
					}
					fmt.Fprintf(&lb, "%s\t%s\n", a, cases[i].path)
					byPath[cases[i].path] = i
				}
				os.WriteFile(listPath, lb.Bytes(), 0o644)
				cmd := exec.Command(os.Args[0], "c16-worker", listPath)
				var out, errb bytes.Buffer
				cmd.Stdout, cmd.Stderr = &out, &errb
				werr := cmd.Run()
				last := -1
				doneSet := map[int]bool{}
				sc := bufio.NewScanner(&out)
				sc.Buffer(make([]byte, 1<<20), 1<<28)
				for sc.Scan() {
					var res c16Result
					if json.Unmarshal(sc.Bytes(), &res) != nil {
						continue
					}
					i, ok := byPath[res.File]
					if !ok {
						continue
					}
					if res.Begin {
						last = i
						continue
					}
					rc := res
					mu.Lock()
					results[i] = &rc
					mu.Unlock()
					doneSet[i] = true
				}
				if werr == nil {
					break
				}
				// the worker died: the input announced last is the culprit
				if last >= 0 && !doneSet[last] {
					mu.Lock()
					results[last] = &c16Result{File: cases[last].path, Panic: fmt.Sprintf("RUNTIME FATAL: worker process died (%v): %s", werr, tail(errb.String(), 400))}
					mu.Unlock()
					doneSet[last] = true
				}
				var rest []int
				for _, i := range todo {
					if !doneSet[i] {
						rest = append(rest, i)
					}
				}
				if len(rest) == len(todo) {
					run.Inconclusive("worker died without progress: " + tail(errb.String(), 300))
					break
				}
				todo = rest
			}
		}(w)
	}
	wg.Wait()

	// judge
	kinds := map[string]int64{}
	distinct := map[string]bool{}
	key := func(n int, caller string) string { return fmt.Sprintf("%d|%s", n, caller) }
	multiset := func(res *c16Result) map[string]int {
		m := map[string]int{}
		for _, s := range res.Syscalls {
			m[key(s.Num, s.Caller)]++
		}
		return m
	}
	for i, c := range cases {
		res := results[i]
		if res == nil {
			run.Inconclusive(fmt.Sprintf("no result for input %d (%s)", i, c.kind))
			continue
		}
		kinds[c.kind]++
		run.Count("texts", 1)
		replay := vlib.LazyReplay(func() any {
			tb, _ := os.ReadFile(c.path)
			replayText := string(tb)
			if len(replayText) > 4000 {
				replayText = replayText[:2000] + "\n...[" + fmt.Sprint(len(replayText)) + " bytes]...\n" + replayText[len(replayText)-1000:]
			}
			return map[string]any{"check": "C16", "kind": c.kind, "arch": c.arch, "text": replayText, "is_directory": c.isDir, "result": res}
		})
		if res.Panic != "" {
			sig := "panic:" + c.kind
			if strings.Contains(res.Panic, "slice bounds out of range") {
				sig = "panic-slice-bounds:" + c.kind
			}
			run.Violation(sig, fmt.Sprintf("%s input (%s, %d bytes): extraction does not return: %s", c.kind, c.arch, c.size, res.Panic), replay)
			continue
		}
		if c.delivery != "" {
			run.Count("texts_also_delivered_through_a_"+c.delivery, 1)
			if strings.HasPrefix(res.DeliveryDiff, "harness: ") {
				run.Count("delivery_not_possible", 1)
			} else if res.DeliveryDiff != "" {
				run.Violation("result-depends-on-delivery:"+c.delivery, fmt.Sprintf("%s input (%s, %d bytes): the same text %s", c.kind, c.arch, c.size, res.DeliveryDiff), replay)
				continue
			}
		}
		if c.mustError {
			run.Count("unreadable_texts", 1)
			if res.Nil {
				run.Violation("unreadable-text-nil-error:"+c.kind, fmt.Sprintf("%s input (%s): the text cannot be read to the end, but ExtractSyscalls returns a nil error with %d syscalls", c.kind, c.arch, len(res.Syscalls)), replay)
				continue
			}
			run.Count("unreadable_texts_reported_as_error", 1)
		}
		if c.arch == "x32" || c.arch == "arm" {
			if c.arch == "arm" && res.Nil {
				run.Violation("unsupported-arch-extracts", "ExtractSyscalls for an architecture the extractor does not support returns a nil error", replay)
			}
			run.Count("other_arch_calls", 1)
			continue
		}
		// every reported syscall exists in the oracle table under the reported name
		bad := false
		for _, s := range res.Syscalls {
			if name, ok := tables[c.arch][s.Num]; !ok || name != s.Name {
				// a number the vendored 6.1 headers do not list (newer syscalls: 335 uretprobe, 441...) is compared with the
				// package's own table, which is "the architecture's table" of the statement; its agreement with independent
				// sources is C12's subject
				if !ok {
					info := arch.X86_64
					if c.arch == "i386" {
						info = arch.I386
					}
					if nr, known := info.SyscallNames[s.Name]; known && nr == s.Num {
						run.Count("reported_numbers_known_to_the_package_table_only", 1)
						continue
					}
				}
				run.Violation("reported-syscall-not-in-table", fmt.Sprintf("%s input (%s): reported syscall (%d, %q) is not in the architecture's table (oracle: %q)", c.kind, c.arch, s.Num, s.Name, name), replay)
				bad = true
				break
			}
		}
		if bad {
			continue
		}
		if c.hasExp {
			if !res.Nil {
				run.Violation("valid-listing-error", fmt.Sprintf("%s listing (%s): error on a well-formed listing: %s", c.kind, c.arch, res.Err), replay)
				continue
			}
			got := multiset(res)
			want := map[string]int{}
			for _, e := range c.exp {
				want[key(e.Num, e.Caller)]++
			}
			if c.numOnly {
				got, want = map[string]int{}, map[string]int{}
				for _, sc := range res.Syscalls {
					got[key(sc.Num, "")]++
				}
				for _, e := range c.exp {
					want[key(e.Num, "")]++
				}
				run.Count("listings_with_marker_variants", 1)
			}
			run.Count("sites_expected", int64(len(c.exp)))
			run.Count("sites_found", int64(len(res.Syscalls)))
			diff := ""
			for k, v := range want {
				if got[k] != v {
					diff = fmt.Sprintf("site %s expected %d times, found %d times", k, v, got[k])
				}
			}
			for k, v := range got {
				if want[k] != v {
					diff = fmt.Sprintf("site %s found %d times, the model has %d (attributed from another function, wrong number, or not a site)", k, v, want[k])
				}
			}
			if diff != "" {
				sig := "site-model-mismatch"
				if strings.Contains(diff, "the model has 0") {
					sig = "site-attributed-that-is-none"
				}
				run.Violation(sig, fmt.Sprintf("%s listing (%s, %d functions-worth of text): %s", c.kind, c.arch, c.nFuncs, diff), replay)
				continue
			}
			distinct[fmt.Sprint(c.arch, len(c.exp), c.nFuncs)] = true
		}
		if c.prefixOf >= 0 && results[c.prefixOf] != nil {
			run.Count("monotonicity_pairs", 1)
			full := multiset(results[c.prefixOf])
			for k, v := range multiset(res) {
				if full[k] < v {
					run.Violation("appending-functions-removes-syscalls", fmt.Sprintf("%s: site %s found %d times in the prefix but %d times after appending further functions", c.arch, k, v, full[k]), replay)
					break
				}
			}
		}
	}

	// (5) read failures at every point, injected by strace
	c16ReadFaults(run, dir, tables)

	run.Set("texts_by_kind", kinds)
	run.Sample(2, map[string]any{"kind": "model", "arch": cases[0].arch, "expected_sites": cases[0].exp, "text_head": sampleHead})
	run.Sample(2, map[string]any{"kind": "hostile-line", "lines": hostile[20:30]})
	run.Assume("the expected sites come from the site model that generated the listing, never from the text; sites of one function always carry their own number load",
		"reported names are compared with the kernel UAPI tables of linux-libc-dev 6.1 (numbers above its range are not judged)")
	if run.Violations() == 0 {
		run.Require("texts", 2000)
		run.Require("sites_expected", 1000)
		run.Require("monotonicity_pairs", 100)
		run.Require("unreadable_texts_reported_as_error", 5)
		run.Require("read_faults_injected", 5)
	}
	run.Finish(run.Counter("texts")+run.Counter("read_faults_injected"), int64(len(distinct)),
		"listings generated from a site model (functions x {raw trap after MOV, wrapper CALL after MOV to 0(SP), XOR special case, decoy load, traps inside wrapper functions, trap whose load is in the previous function, numbers outside the table; function headers as go tool objdump prints them, bare 'TEXT' lines and tab-separated headers}) for x86_64 and i386 with function-boundary prefixes; hostile lines (every prefix of a TEXT marker, trigger words with 0..3 fields, odd numbers, NUL/invalid UTF-8, CRLF), lines of 65535..1000000 bytes, a directory, truncation at every byte/line, PRNG byte mutations, read errors injected by strace at every read; each batch in a child process with the input on disk before the call; distinct = (arch, sites, functions) shapes of model listings")
}

// c16ReadFaults makes the K-th read of the listing fail with EIO.
func c16ReadFaults(run *vlib.Run, dir string, tables map[string]map[int]string) {
	r := caseRand(run, 424242)
	text, exp := renderListing(genFunctions(r, 150, tables["x86_64"]), false, tables["x86_64"], r)
	path := filepath.Join(dir, "readfault.txt")
	os.WriteFile(path, []byte(text), 0o644)
	listPath := filepath.Join(dir, "readfault.list")
	os.WriteFile(listPath, []byte("x86_64\t"+path+"\n"), 0o644)
	reads := len(text)/4096 + 2
	if !run.Thorough() && reads > 12 {
		reads = 12
	}
	for k := 1; k <= reads; k++ {
		cmd := exec.Command("strace", "-f", "-o", "/dev/null", "-P", path, "-e", "trace=read", "-e", fmt.Sprintf("inject=read:error=EIO:when=%d", k), os.Args[0], "c16-worker", listPath)
		var out bytes.Buffer
		cmd.Stdout = &out
		if err := cmd.Run(); err != nil {
			run.Inconclusive("strace read-fault run failed: " + err.Error())
			return
		}
		var res *c16Result
		for _, l := range strings.Split(out.String(), "\n") {
			var x c16Result
			if json.Unmarshal([]byte(l), &x) == nil && !x.Begin && x.File == path {
				res = &x
			}
		}
		if res == nil {
			run.Inconclusive("read-fault run produced no result")
			return
		}
		run.Count("read_faults_injected", 1)
		replay := map[string]any{"check": "C16", "kind": "read-fault", "fault": fmt.Sprintf("read #%d of the listing fails with EIO", k), "listing_bytes": len(text), "result_syscalls": len(res.Syscalls), "nil_error": res.Nil}
		if res.Panic != "" {
			run.Violation("panic:read-fault", "extraction panics when a read fails: "+res.Panic, replay)
			return
		}
		if res.Nil && len(res.Syscalls) == len(exp) {
			run.Count("read_faults_not_hit", 1) // the K-th read happened on another thread or after EOF
			continue
		}
		if res.Nil {
			run.Violation("unreadable-text-nil-error:read-fault", fmt.Sprintf("read #%d of a %d-byte listing fails with EIO, but ExtractSyscalls returns a nil error and %d of %d syscalls", k, len(text), len(res.Syscalls), len(exp)), replay)
			return
		}
		run.Count("read_faults_reported_as_error", 1)
	}
}
