package main

import (
	"bytes"
	"crypto/sha256"
	"encoding/hex"
	"fmt"
	"os"
	"os/exec"
	"path/filepath"
	"sort"
	"strings"
	"sync"
	"sync/atomic"

	seccomp "github.com/elastic/go-seccomp-bpf"
	"github.com/elastic/go-seccomp-bpf/arch"
	"github.com/elastic/go-seccomp-bpf/cmd/seccomp-profiler/disasm"

	"verif/harness/vlib"
)

func init() {
	checks["C12"] = c12
	checks["c12-dump"] = c12Dump
}

var c12Tables = []struct {
	name   string // canonical name and oracle key
	info   *arch.Info
	audit  string
	hasTbl bool
}{
	{"arm", arch.ARM, "ARM", true}, {"aarch64", arch.AARCH64, "AARCH64", true}, {"i386", arch.I386, "I386", true},
	{"x32", arch.X32, "X86_64", true}, {"x86_64", arch.X86_64, "X86_64", true},
	{"ppc", arch.PPC, "PPC", false}, {"ppc64", arch.PPC64, "PPC64", false}, {"ppc64le", arch.PPC64LE, "PPC64LE", false},
	{"s390", arch.S390, "S390", false}, {"s390x", arch.S390X, "S390X", false}, {"mips", arch.MIPS, "MIPS", false},
	{"mipsel", arch.MIPSEL, "MIPSEL", false}, {"mips64", arch.MIPS64, "MIPS64", false}, {"mips64n32", arch.MIPS64N32, "MIPS64N32", false},
	{"mipsel64", arch.MIPSEL64, "MIPSEL64", false}, {"mipsel64n32", arch.MIPSEL64N32, "MIPSEL64N32", false},
}

// aliases: spelling -> canonical table name (documented GOARCH and Linux names).
var c12Aliases = map[string]string{
	"arm": "arm", "ppc": "ppc", "ppc64": "ppc64", "ppc64le": "ppc64le", "s390": "s390", "s390x": "s390x", "mips": "mips",
	"mipsle": "mipsel", "mips64": "mips64", "i386": "i386", "386": "i386", "x32": "x32", "x86_64": "x86_64", "amd64": "x86_64",
	"aarch64": "aarch64", "arm64": "aarch64", "mips64n32": "mips64n32", "mips64p32": "mips64n32", "mipsel64": "mipsel64",
	"mips64le": "mipsel64", "mipsel64n32": "mipsel64n32", "mips64p32le": "mipsel64n32",
}

func c12Dump() {
	// every lookup result of the five tables, in sorted order
	var b strings.Builder
	for _, t := range c12Tables {
		if !t.hasTbl {
			continue
		}
		names := make([]string, 0, len(t.info.SyscallNames))
		for n := range t.info.SyscallNames {
			names = append(names, n)
		}
		sort.Strings(names)
		for _, n := range names {
			fmt.Fprintf(&b, "%s name %s -> %d\n", t.name, n, t.info.SyscallNames[n])
		}
		nums := make([]int, 0, len(t.info.SyscallNumbers))
		for n := range t.info.SyscallNumbers {
			nums = append(nums, n)
		}
		sort.Ints(nums)
		for _, n := range nums {
			fmt.Fprintf(&b, "%s nr %d -> %s\n", t.name, n, t.info.SyscallNumbers[n])
		}
	}
	// what every documented architecture word resolves to (the table's name, id and x32 mask, or the error), three letter cases
	var words []string
	for alias := range c12Aliases {
		words = append(words, alias, strings.ToUpper(alias), mixedCase(alias))
	}
	words = append(words, "")
	sort.Strings(words)
	for _, w := range words {
		info, err := arch.GetInfo(w)
		if err != nil || info == nil {
			fmt.Fprintf(&b, "getinfo %q -> error %v\n", w, err)
		} else {
			fmt.Fprintf(&b, "getinfo %q -> %s id=%#x mask=%#x names=%d\n", w, info.Name, uint32(info.ID), info.SeccompMask, len(info.SyscallNames))
		}
	}
	os.Stdout.WriteString(b.String())
}

func mixedCase(s string) string {
	b := []byte(s)
	for i := range b {
		if i%2 == 0 && b[i] >= 'a' && b[i] <= 'z' {
			b[i] -= 32
		}
	}
	return string(b)
}

// c12TableDigest: digest of every lookup result of the five tables in this process.
func c12TableDigest() string {
	h := sha256.New()
	for _, t := range c12Tables {
		if !t.hasTbl {
			continue
		}
		names := make([]string, 0, len(t.info.SyscallNames))
		for n := range t.info.SyscallNames {
			names = append(names, n)
		}
		sort.Strings(names)
		for _, n := range names {
			fmt.Fprintf(h, "%s name %s -> %d\n", t.name, n, t.info.SyscallNames[n])
		}
		nums := make([]int, 0, len(t.info.SyscallNumbers))
		for n := range t.info.SyscallNumbers {
			nums = append(nums, n)
		}
		sort.Ints(nums)
		for _, n := range nums {
			fmt.Fprintf(h, "%s nr %d -> %s\n", t.name, n, t.info.SyscallNumbers[n])
		}
		fmt.Fprintf(h, "%s id %#x mask %#x\n", t.name, uint32(t.info.ID), t.info.SeccompMask)
	}
	return hex.EncodeToString(h.Sum(nil)[:12])
}

// c12ExerciseOtherAPIs uses the package's other public entry points in this process (compilation, dumps, text
// conversions, syscall extraction from listings with known and unknown numbers, lookups of every alias): the tables
// are shared, package-level data and must come out of it unchanged.
func c12ExerciseOtherAPIs(run *vlib.Run) {
	_, ts := mustTargets(run)
	for i := 0; i < 40; i++ {
		r := caseRand(run, 9000+i)
		t := ts[i%len(ts)]
		p := vlib.GenMixed(r, t, vlib.DefaultMixed())
		c := vlib.Compile(p, t)
		if c.OK() {
			var sink strings.Builder
			p.Dump(&sink)
		}
	}
	dir := filepath.Join(vlib.BinDir(), "c12-listings")
	os.MkdirAll(dir, 0o755)
	defer os.RemoveAll(dir)
	for i, a := range []*arch.Info{arch.X86_64, arch.I386, arch.X32, arch.ARM, arch.X86_64} {
		trapLine := "SYSCALL"
		if a == arch.I386 {
			trapLine = "INT $0x80"
		}
		var b strings.Builder
		b.WriteString("TEXT main.f(SB) /src/f.go\n")
		for _, nr := range []int{1, 3, 999, 100999, 0x7fffffff, 60, 600, 1, 999} {
			fmt.Fprintf(&b, "  f.go:1\t0x1\tb8\tMOVL $%d, AX\n  f.go:2\t0x2\t0f05\t%s\n", nr, trapLine)
			fmt.Fprintf(&b, "  f.go:3\t0x3\tb8\tMOVQ $%d, 0(SP)\n  f.go:4\t0x4\te8\tCALL syscall.Syscall(SB)\n", nr)
		}
		path := filepath.Join(dir, fmt.Sprintf("l%d.txt", i))
		os.WriteFile(path, []byte(b.String()), 0o644)
		devnull, _ := os.OpenFile("/dev/null", os.O_WRONLY, 0)
		saved := os.Stderr
		if devnull != nil {
			os.Stderr = devnull
		}
		disasm.ExtractSyscalls(a, path)
		os.Stderr = saved
		if devnull != nil {
			devnull.Close()
		}
		run.Count("extractions_before_re_audit", 1)
	}
	for alias := range c12Aliases {
		arch.GetInfo(alias)
		arch.GetInfo(strings.ToUpper(alias))
	}
	var a seccomp.Action
	a.Unpack("allow")
	_ = seccomp.FilterFlag(3).String()
}

func c12() {
	run := vlib.NewRun("C12", "exploration")
	c12Audit(run, "fresh process")
	before := c12TableDigest()
	c12ExerciseOtherAPIs(run)
	if after := c12TableDigest(); after != before {
		run.Violation("tables-changed-by-other-api-calls", fmt.Sprintf("the lookup tables differ after compilations, dumps, syscall extractions and alias lookups ran in the same process (digest %s -> %s)", before, after), map[string]any{"check": "C12"})
	}
	c12Audit(run, "after other API calls in the same process")
	c12Finish(run)
}

func c12Audit(run *vlib.Run, phase string) {
	o, err := vlib.LoadOracles()
	if err != nil {
		run.Inconclusive("cannot load oracles: " + err.Error())
		run.Finish(0, 0, "")
	}
	byName := map[string]*arch.Info{}
	for _, t := range c12Tables {
		byName[t.name] = t.info
	}
	distinct := map[string]bool{}
	var evals int64

	for _, t := range c12Tables {
		// audit arch id
		evals++
		if want := o.AuditArch[t.audit]; uint32(t.info.ID) != want {
			run.Violation("audit-arch:"+t.name, fmt.Sprintf("%s: Info.ID=%#x, AUDIT_ARCH_%s=%#x in linux/audit.h", t.name, uint32(t.info.ID), t.audit, want), map[string]any{"check": "C12", "arch": t.name})
		}
		run.Count("audit_arch_ids_checked", 1)
		if !t.hasTbl {
			if len(t.info.SyscallNames) != 0 || len(t.info.SyscallNumbers) != 0 {
				run.Count("tables_for_documented_tableless_arch", 1)
			}
			continue
		}
		info := t.info
		if len(info.SyscallNumbers) == 0 || len(info.SyscallNames) == 0 {
			run.Violation("empty-table:"+t.name, t.name+": a supported architecture has an empty table", map[string]any{"check": "C12", "arch": t.name})
			continue
		}
		// number -> name -> number, and duplicates
		numsOf := map[string][]int{}
		for nr, name := range info.SyscallNumbers {
			numsOf[name] = append(numsOf[name], nr)
		}
		for nr, name := range info.SyscallNumbers {
			evals++
			run.Count("pairs_checked", 1)
			distinct[t.name+"/"+name] = true
			if len(numsOf[name]) > 1 {
				sort.Ints(numsOf[name])
				run.Violation(t.name+":dup-name:"+name, fmt.Sprintf("%s: name %q has %d numbers %v, so SyscallNames[%q] depends on map iteration order", t.name, name, len(numsOf[name]), numsOf[name], name),
					map[string]any{"check": "C12", "arch": t.name, "name": name, "numbers": numsOf[name]})
				continue
			}
			if back, ok := info.SyscallNames[name]; !ok || back != nr {
				run.Violation(t.name+":not-inverse:"+name, fmt.Sprintf("%s: SyscallNumbers[%d]=%q but SyscallNames[%q]=%d (found=%v)", t.name, nr, name, name, back, ok),
					map[string]any{"check": "C12", "arch": t.name, "name": name, "nr": nr})
			}
			if name == "" || strings.TrimSpace(name) != name {
				run.Violation(t.name+":bad-name", fmt.Sprintf("%s: number %d has the malformed name %q", t.name, nr, name), map[string]any{"check": "C12", "arch": t.name, "nr": nr})
			}
		}
		for name, nr := range info.SyscallNames {
			evals++
			if back, ok := info.SyscallNumbers[nr]; !ok || (back != name && len(numsOf[name]) <= 1) {
				run.Violation(t.name+":not-inverse:"+name, fmt.Sprintf("%s: SyscallNames[%q]=%d but SyscallNumbers[%d]=%q (found=%v)", t.name, name, nr, nr, back, ok),
					map[string]any{"check": "C12", "arch": t.name, "name": name, "nr": nr})
			}
		}
		// agreement with every oracle source that lists the name
		maxOracle := 0
		oracleNums := map[int]bool{}
		for src, tbl := range o.Tables[t.name] {
			for name, onr := range tbl {
				if onr > maxOracle && onr < 900000 {
					maxOracle = onr
				}
				oracleNums[onr] = true
				if len(numsOf[name]) == 1 {
					evals++
					run.Count("oracle_comparisons", 1)
					if numsOf[name][0] != onr {
						run.Violation(t.name+":number:"+name, fmt.Sprintf("%s: %q is %d in the package table, %d in oracle source %s", t.name, name, numsOf[name][0], onr, src),
							map[string]any{"check": "C12", "arch": t.name, "name": name, "package": numsOf[name][0], "oracle": onr, "source": src})
					}
				}
			}
		}
		// informational: rows neither the name nor the number of which any oracle of this ABI knows, below the oracle's range
		var unknown []string
		for nr, name := range info.SyscallNumbers {
			listed := false
			for _, tbl := range o.Tables[t.name] {
				if _, ok := tbl[name]; ok {
					listed = true
				}
			}
			if !listed && nr <= maxOracle && !oracleNums[nr] {
				unknown = append(unknown, fmt.Sprintf("%d:%s", nr, name))
			}
		}
		sort.Strings(unknown)
		run.Set("rows_unknown_to_all_oracles_below_their_range:"+t.name, unknown)
		run.Count("tables_checked", 1)
	}

	// AUDIT_ARCH constants through the exported String method
	for name, v := range o.AuditArch {
		got := arch.AuditArch(v).String()
		want := strings.ToLower(name)
		known := !strings.HasPrefix(got, "unknown[")
		evals++
		run.Count("audit_arch_names_checked", 1)
		if known && got != want {
			run.Violation("audit-arch-name:"+name, fmt.Sprintf("AuditArch(%#x).String()=%q, linux/audit.h calls this value AUDIT_ARCH_%s", v, got, name), map[string]any{"check": "C12", "value": v})
		}
	}
	// every constant the package names must carry the kernel's value: the 29 documented names
	for _, name := range []string{"AARCH64", "ARM", "ARMEB", "CRIS", "FRV", "I386", "IA64", "M32R", "M68K", "MIPS", "MIPS64", "MIPS64N32", "MIPSEL", "MIPSEL64", "MIPSEL64N32", "PARISC", "PARISC64", "PPC", "PPC64", "PPC64LE", "S390", "S390X", "SH", "SH64", "SHEL", "SHEL64", "SPARC", "SPARC64", "X86_64"} {
		v, ok := o.AuditArch[name]
		if !ok {
			continue
		}
		evals++
		if got := arch.AuditArch(v).String(); got != strings.ToLower(name) {
			run.Violation("audit-arch-const:"+name, fmt.Sprintf("AuditArch(%#x).String()=%q: the package's constant for %s does not carry the kernel's value", v, got, name), map[string]any{"check": "C12", "value": v, "name": name})
		}
	}

	// aliases in three letter cases
	for alias, canon := range c12Aliases {
		for _, sp := range []string{alias, strings.ToUpper(alias), mixedCase(alias)} {
			info, err := arch.GetInfo(sp)
			evals++
			run.Count("alias_lookups", 1)
			want := byName[canon]
			hasTable := len(want.SyscallNames) > 0
			switch {
			case hasTable && (err != nil || info != want):
				run.Violation("alias:"+alias, fmt.Sprintf("GetInfo(%q): want the %s table, got %v err=%v", sp, canon, info, err), map[string]any{"check": "C12", "alias": sp})
			case !hasTable && (err == nil || info != nil):
				run.Violation("alias-unsupported:"+alias, fmt.Sprintf("GetInfo(%q): %s has no syscall table but no error is returned", sp, canon), map[string]any{"check": "C12", "alias": sp})
			}
		}
	}
	// names (uname -m, GOARCH, Debian, audit and toolchain spellings) of architectures for which the package has no
	// table: unsupported, in any letter case
	for _, name := range c12TablelessNames {
		for _, sp := range []string{name, strings.ToUpper(name), mixedCase(name)} {
			info, err := arch.GetInfo(sp)
			evals++
			run.Count("tableless_architecture_names_offered", 1)
			if err == nil || info != nil {
				run.Violation("tableless-arch-accepted", fmt.Sprintf("GetInfo(%q) returns the %s table, but that name denotes an architecture without a syscall table", sp, info.Name), map[string]any{"check": "C12", "alias": sp})
			}
		}
	}
	// other spellings of architectures that do have tables: not documented aliases, so they may be refused; if one is
	// accepted it must be that architecture's table
	for sp, canon := range map[string]string{"i686": "i386", "i586": "i386", "i486": "i386", "x86-64": "x86_64", "x64": "x86_64", "amd64 ": "x86_64", " amd64": "x86_64",
		"armv7l": "arm", "armv6l": "arm", "armhf": "arm", "armel": "arm", "armv8": "aarch64", "arm64e": "aarch64"} {
		info, err := arch.GetInfo(sp)
		evals++
		run.Count("alias_lookups", 1)
		if err == nil && info != byName[canon] {
			run.Violation("nickname-resolves-to-other-table", fmt.Sprintf("GetInfo(%q) returns the %s table; that name denotes %s", sp, info.Name, canon), map[string]any{"check": "C12", "alias": sp})
		}
	}
	if info, err := arch.GetInfo(""); err != nil || info != arch.X86_64 {
		run.Violation("alias:default", fmt.Sprintf("GetInfo(\"\") on an amd64 host: %v, %v", info, err), map[string]any{"check": "C12"})
	}

	// the same lookups from 16 goroutines at once, each with its own sequence of spellings: every single answer must be the
	// one the spelling denotes (whatever the package remembers between lookups)
	if phase != "concurrent" {
		type q struct {
			sp   string
			want *arch.Info
		}
		var qs []q
		for alias, canon := range c12Aliases {
			w := byName[canon]
			if len(w.SyscallNames) == 0 {
				w = nil
			}
			qs = append(qs, q{alias, w}, q{strings.ToUpper(alias), w}, q{mixedCase(alias), w})
		}
		qs = append(qs, q{"", arch.X86_64}, q{"armv7b", nil}, q{"riscv64", nil})
		sort.Slice(qs, func(i, j int) bool { return qs[i].sp < qs[j].sp })
		var wg sync.WaitGroup
		var bad atomic.Value
		var n atomic.Int64
		rounds := run.N(4000, 100000)
		for g := 0; g < 16; g++ {
			wg.Add(1)
			go func(g int) {
				defer wg.Done()
				x := uint32(g)*2654435761 + 12345
				for k := 0; k < rounds && bad.Load() == nil; k++ {
					x = x*1664525 + 1013904223
					c := qs[int(x>>8)%len(qs)]
					info, err := arch.GetInfo(c.sp)
					n.Add(1)
					if (c.want == nil) != (err != nil || info == nil) || (c.want != nil && info != c.want) {
						got := "an error"
						if info != nil {
							got = "the " + info.Name + " table"
						}
						bad.Store(fmt.Sprintf("GetInfo(%q) called next to 15 other goroutines that look up other names returns %s", c.sp, got))
					}
				}
			}(g)
		}
		wg.Wait()
		run.Count("concurrent_lookups_judged", n.Load())
		if b := bad.Load(); b != nil {
			run.Violation("lookup-under-concurrency-answers-for-another-name", b.(string), map[string]any{"check": "C12"})
		}
	}
	run.Count("audits:"+phase, 1)
	_, _ = evals, distinct
}

func c12Finish(run *vlib.Run) {
	o, err := vlib.LoadOracles()
	if err != nil {
		run.Inconclusive("cannot load oracles: " + err.Error())
		run.Finish(0, 0, "")
	}
	_ = o
	evals := run.Counter("pairs_checked") + run.Counter("oracle_comparisons") + run.Counter("alias_lookups") + run.Counter("audit_arch_names_checked")
	distinct := map[string]bool{}
	for _, t := range c12Tables {
		for _, name := range t.info.SyscallNumbers {
			distinct[t.name+"/"+name] = true
		}
	}
	// determinism across processes: the inversion is redone at every start
	nproc := run.N(24, 200)
	sums := map[string]int{}
	var mu sync.Mutex
	var first []byte
	vlib.Parallel(nproc, func(i int) {
		cmd := exec.Command(os.Args[0], "c12-dump")
		var out bytes.Buffer
		cmd.Stdout = &out
		if err := cmd.Run(); err != nil {
			run.Inconclusive("dump process failed: " + err.Error())
			return
		}
		// every fresh process is judged on its own, too: the documented words of the tables must resolve to their tables
		for _, l := range strings.Split(out.String(), "\n") {
			if !strings.HasPrefix(l, "getinfo ") {
				continue
			}
			run.Count("architecture_words_resolved_in_fresh_processes", 1)
			var w string
			if _, err := fmt.Sscanf(l, "getinfo %q", &w); err != nil {
				continue
			}
			canon, known := c12Aliases[strings.ToLower(w)]
			if w == "" {
				canon, known = "x86_64", true
			}
			if !known {
				continue
			}
			for _, t := range c12Tables {
				if t.name == canon && t.hasTbl && !strings.Contains(l, fmt.Sprintf("-> %s id=%#x mask=%#x names=%d", t.info.Name, uint32(t.info.ID), t.info.SeccompMask, len(t.info.SyscallNames))) {
					run.Violation("alias-in-fresh-process:"+strings.ToLower(w), fmt.Sprintf("fresh process %d: %s; that word denotes the %s table", i, l, canon), map[string]any{"check": "C12", "line": l})
					return
				}
			}
		}
		h := sha256.Sum256(out.Bytes())
		mu.Lock()
		sums[hex.EncodeToString(h[:8])]++
		if first == nil {
			first = out.Bytes()
		}
		mu.Unlock()
		run.Count("dump_processes", 1)
	})
	evals += int64(nproc)
	if len(sums) > 1 {
		run.Violation("lookups-differ-between-processes", fmt.Sprintf("%d fresh processes produced %d different dumps of the lookup tables: %v", nproc, len(sums), sums), map[string]any{"check": "C12", "digests": sums})
	}
	run.Set("dump_digests", sums)
	run.Set("exhaustive", true)
	run.Sample(3, map[string]any{"table": "x86_64", "entries": len(arch.X86_64.SyscallNumbers), "example": "read -> 0 compared with uapi, xsys, gosyscall", "dump_first_line": strings.SplitN(string(first), "\n", 2)[0]})
	run.Sample(3, map[string]any{"alias_spellings": []string{"amd64", "AMD64", "AmD64"}, "resolve_to": "x86_64"})
	run.Assume("oracle tables were generated once from linux-libc-dev 6.1 headers, golang.org/x/sys v0.48.0 and Go's syscall package on this image (oracles/gen_oracles.py) and are trusted",
		"agreement is required only where an oracle lists the name; newer syscalls are absent from the 6.1 headers")
	if run.Violations() == 0 {
		run.Require("tables_checked", 5)
		run.Require("pairs_checked", 1800)
		run.Require("oracle_comparisons", 3000)
		run.Require("dump_processes", int64(nproc))
	}
	run.Finish(evals, int64(len(distinct)),
		"exhaustive over the five tables: every (number, name) row checked for inversion both ways, uniqueness of the name, and equality with every oracle source listing the name; 16 architecture ids and 29 AUDIT_ARCH names against linux/audit.h; 22 alias keys x 3 letter cases + unknown names; N fresh processes dumping all lookups must agree byte for byte; the whole audit is repeated after compilations, dumps, syscall extractions (known and unknown numbers, five architectures) and alias lookups ran in the same process, and the table digest must be unchanged; distinct = (table, name) pairs")
}

// c12TablelessNames: spellings of architectures for which the package has no syscall table.
var c12TablelessNames = []string{
	// big-endian ARM (AUDIT_ARCH_ARMEB) as uname -m and toolchains call it
	"armeb", "armv4b", "armv4tb", "armv5b", "armv5teb", "armv5tejb", "armv6b", "armv7b", "armv8b", "armbe", "armebv7r",
	"aarch64_be", "aarch64be", "arm64be", "arm64_be",
	// GOARCH values without tables
	"mips", "mipsle", "mips64", "mips64le", "mips64p32", "mips64p32le", "ppc", "ppc64", "ppc64le", "riscv", "riscv64", "s390", "s390x", "sparc", "sparc64", "loong64", "wasm", "amd64p32", "armbe",
	// uname -m / Debian / kernel names
	"mipsel", "mips64el", "mipsn32", "mipsn32el", "powerpc", "powerpc64", "powerpc64le", "ppc64el", "ppcle", "riscv32", "loongarch64", "loongarch32", "alpha", "ia64", "m68k", "sh", "sh4", "sh4eb", "sh64",
	"parisc", "parisc64", "hppa", "hppa64", "cris", "frv", "m32r", "xtensa", "arc", "arceb", "microblaze", "microblazeel", "nios2", "openrisc", "or1k", "csky", "hexagon", "tile", "tilegx", "unicore32", "c6x", "h8300", "nds32", "e2k", "avr32", "blackfin", "metag", "score", "um", "wasm32", "wasm64",
	// audit names of the package's own constants without tables
	"mipsel64", "mipsel64n32", "mips64n32", "shel", "shel64",
}
