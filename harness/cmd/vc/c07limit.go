package main

import (
	"fmt"

	seccomp "github.com/elastic/go-seccomp-bpf"

	"verif/harness/vlib"
)

// Acceptance at the kernel's size limit (C07, last clause). Whether a rejected policy "fits the
// 4096-instruction limit" cannot be read off a program that was never produced, so the monitor observes
// the growth law of the running compiler instead: a policy is grown one entry of its last group at a time,
// every accepted step's program length is recorded, and a rejection is judged only when
//   - the last 20 accepted steps each grew the program by the same amount d,
//   - the same steps of the same last group on a base with one group less grew by d as well (calibration:
//     the step does not cross a jump-distance threshold inside the group), and
//   - the length before the rejected step plus d is at most 4096.
//
// A rejection beyond that point is not judged (refusing an oversize program at compile time is legitimate),
// and irregular growth is counted, not judged.
type limitFamily struct {
	name string
	// base groups and the entry added to the last group at step j
	baseGroup func(t *vlib.Target, g int) seccomp.SyscallGroup
	grow      func(t *vlib.Target, last *seccomp.SyscallGroup, j int)
	lastAct   seccomp.Action
	defAct    seccomp.Action
}

func limitFamilies() []limitFamily {
	acts := []seccomp.Action{vlib.RetErrno, vlib.RetTrace, vlib.RetLog, vlib.RetTrap, vlib.RetKillProcess}
	names := func(t *vlib.Target, from, n int) []string {
		out := make([]string, n)
		for i := range out {
			out[i] = t.Names[(from+i)%len(t.Names)]
		}
		return out
	}
	return []limitFamily{
		{name: "groups-of-100-names/last-group-grows-by-one-name",
			baseGroup: func(t *vlib.Target, g int) seccomp.SyscallGroup {
				return seccomp.SyscallGroup{Action: acts[g%len(acts)], Names: names(t, g*7, 100)}
			},
			grow: func(t *vlib.Target, last *seccomp.SyscallGroup, j int) {
				last.Names = append(last.Names, t.Names[j%len(t.Names)])
			}, lastAct: vlib.RetAllow, defAct: vlib.RetErrno},
		{name: "groups-with-condition-lists/last-group-grows-by-one-name",
			baseGroup: func(t *vlib.Target, g int) seccomp.SyscallGroup {
				grp := seccomp.SyscallGroup{Action: acts[g%len(acts)], Names: names(t, g*5, 40)}
				for l := 0; l < 12; l++ {
					grp.NamesWithCondtions = append(grp.NamesWithCondtions, seccomp.NameWithConditions{Name: t.Names[(g*5+50+l/3)%len(t.Names)], Conditions: eqList(uint64(g*1000+l*8), 1+l%4)})
				}
				return grp
			},
			grow: func(t *vlib.Target, last *seccomp.SyscallGroup, j int) {
				last.Names = append(last.Names, t.Names[(j+3)%len(t.Names)])
			}, lastAct: vlib.RetErrno, defAct: vlib.RetAllow},
		{name: "groups-of-100-names/last-group-grows-by-one-single-condition-entry",
			baseGroup: func(t *vlib.Target, g int) seccomp.SyscallGroup {
				return seccomp.SyscallGroup{Action: acts[g%len(acts)], Names: names(t, g*11, 100)}
			},
			grow: func(t *vlib.Target, last *seccomp.SyscallGroup, j int) {
				last.NamesWithCondtions = append(last.NamesWithCondtions, seccomp.NameWithConditions{Name: t.Names[(j/4)%len(t.Names)],
					Conditions: seccomp.ArgumentConditions{{Argument: uint32(j % 6), Operation: "Equal", Value: uint64(j) + 7}}})
			}, lastAct: vlib.RetTrace, defAct: vlib.RetAllow},
	}
}

func c07SizeLimit(run *vlib.Run, ts []*vlib.Target) {
	fams := limitFamilies()
	var cases []struct {
		t *vlib.Target
		f limitFamily
	}
	for ti, t := range ts {
		if len(t.Names) < 200 {
			continue
		}
		for fi, f := range fams {
			if run.Thorough() || (ti+fi)%3 == 0 || t.Name == "x86_64" {
				cases = append(cases, struct {
					t *vlib.Target
					f limitFamily
				}{t, f})
			}
		}
	}
	vlib.Parallel(len(cases), func(ci int) {
		t, f := cases[ci].t, cases[ci].f
		build := func(groups int, j int) *seccomp.Policy {
			p := &seccomp.Policy{DefaultAction: f.defAct}
			for g := 0; g < groups; g++ {
				p.Syscalls = append(p.Syscalls, f.baseGroup(t, g))
			}
			last := seccomp.SyscallGroup{Action: f.lastAct}
			for k := 1; k <= j; k++ {
				f.grow(t, &last, k)
			}
			p.Syscalls = append(p.Syscalls, last)
			return p
		}
		length := func(p *seccomp.Policy) (int, error) {
			c := vlib.Compile(vlib.SpecOf(p, t.Name).Policy(), t)
			if c.Panic != nil {
				return 0, fmt.Errorf("panic: %v", c.Panic)
			}
			if c.Err != nil {
				return 0, c.Err
			}
			if c.RawErr != nil {
				return 0, c.RawErr
			}
			return len(c.Raw), nil
		}
		// number of base groups: as many as keep the program (with one entry in the last group) at or below 4040
		groups := 0
		for groups < 200 {
			l, err := length(build(groups+1, 1))
			if err != nil || l > 4040 {
				break
			}
			groups++
		}
		if groups < 2 {
			run.Count("size_limit_families_without_base", 1)
			return
		}
		var lens []int // lens[j-1] = length with j entries in the last group
		reached := false
		for j := 1; j <= 400; j++ {
			p := build(groups, j)
			l, err := length(p)
			run.Count("size_limit_growth_steps_compiled", 1)
			if err == nil {
				lens = append(lens, l)
				if l == 4096 {
					reached = true
					run.Count("policies_of_exactly_4096_instructions_accepted", 1)
				}
				if l >= 4090 && l <= 4096 {
					run.Count("policies_of_4090_to_4096_instructions_accepted", 1)
				}
				if l > 4096+40 {
					break
				}
				continue
			}
			// rejected at step j
			n := len(lens)
			if n < 21 {
				run.Count("size_limit_rejection_without_growth_history_not_judged", 1)
				return
			}
			d := lens[n-1] - lens[n-2]
			regular := d > 0
			for k := n - 20; k < n && regular; k++ {
				regular = lens[k]-lens[k-1] == d
			}
			if regular {
				// calibration: the same steps of the same last group on a base with one group less
				a, e1 := length(build(groups-1, j-1))
				b, e2 := length(build(groups-1, j))
				regular = e1 == nil && e2 == nil && b-a == d
			}
			switch {
			case !regular:
				run.Count("size_limit_rejection_after_irregular_growth_not_judged", 1)
			case lens[n-1]+d > 4096:
				run.Count("oversize_policy_rejected_at_compile_time_not_judged", 1)
			default:
				run.Violation("valid-policy-at-size-limit-rejected", fmt.Sprintf("arch %s family %s: with %d entries in the last group the program has %d instructions and each of the last 20 entries added %d (so did the same entry on a smaller base); the policy with one more entry (predicted %d <= 4096 instructions) is rejected: %v",
					t.Name, f.name, j-1, lens[n-1], d, lens[n-1]+d, err),
					map[string]any{"check": "C07", "policy": vlib.SpecOf(p, t.Name)})
			}
			return
		}
		if !reached {
			run.Count("size_limit_families_stepping_over_4096", 1)
		}
	})
}
