package main

import (
	"bytes"
	"crypto/sha256"
	"encoding/hex"
	"encoding/json"
	"fmt"
	"io"
	"os"
	"os/exec"
	"path/filepath"
	"strconv"
	"strings"
	"syscall"

	"verif/harness/vlib"
)

// Checks that run the code under test inside the checking process itself are executed in a child of their own: a fatal
// error of the Go runtime (concurrent map writes, stack exhaustion, ...) cannot be recovered, would end the monitor
// together with the code it watches, and must not be lost. If the frame that raised it belongs to the library, it is a
// violation for the checks whose property speaks of it (C13: concurrent use does not race; C07: the compiler never
// panics); anything else that ends the child abnormally makes the run inconclusive.
var guardedAsViolation = map[string]string{"C13": "runtime-fatal-under-concurrent-use", "C07": "compiler-ends-the-process"}

func guarded(id string) {
	cmd := exec.Command(os.Args[0], os.Args[1:]...)
	cmd.Env = append(os.Environ(), "VERIF_GUARDED=1")
	cmd.Stdin = os.Stdin
	cmd.Stdout = os.Stdout
	var errb bytes.Buffer
	cmd.Stderr = io.MultiWriter(os.Stderr, &errb)
	err := cmd.Run()
	code := 0
	if ee, ok := err.(*exec.ExitError); ok {
		code = ee.ExitCode()
		if ws, ok := ee.Sys().(syscall.WaitStatus); ok && ws.Signaled() {
			code = 128 + int(ws.Signal())
		}
	} else if err != nil {
		fmt.Printf("INCONCLUSIVE property=%s cannot start the check process: %v\n", id, err)
		os.Exit(vlib.ExitInconclusive)
	}
	if code == 0 || code == 1 || code == vlib.ExitInconclusive {
		os.Exit(code)
	}
	stderr := errb.String()
	tier, seedText := os.Getenv("VERIF_TIER"), os.Getenv("VERIF_SEED")
	if tier != "thorough" {
		tier = "quick"
	}
	seed, _ := strconv.ParseInt(seedText, 10, 64)
	writeEvidence := func(violations int, note string) {
		ev := map[string]any{"property_id": id, "tier": tier, "seed": seed, "level": "exploration", "wall_s": 0, "violations": violations, "assumptions": []string{},
			"coverage": map[string]any{"evaluations": 0, "distinct_nontrivial": 0, "rule": "the check process ended abnormally before it could report what it covered", "samples": []string{note}, "inconclusive": []string{note}}}
		b, _ := json.MarshalIndent(ev, "", " ")
		os.MkdirAll(vlib.EvidenceDir(), 0o755)
		os.WriteFile(filepath.Join(vlib.EvidenceDir(), id+".json"), b, 0o644)
	}
	sig, asViolation := guardedAsViolation[id]
	if k := strings.Index(stderr, "fatal error: "); k >= 0 && asViolation && !strings.Contains(stderr[k:min(len(stderr), k+200)], "out of memory") {
		// the goroutine that raised it is printed first: whose code is its first frame outside the runtime?
		first := ""
		for _, l := range strings.Split(stderr[k:], "\n")[1:] {
			t := strings.TrimSpace(l)
			if t == "" || strings.HasPrefix(t, "goroutine ") || strings.HasPrefix(l, "\t") || strings.HasPrefix(t, "runtime.") || strings.HasPrefix(t, "internal/") || strings.HasPrefix(t, "[") {
				if first != "" && t == "" {
					break
				}
				continue
			}
			first = t
			break
		}
		if strings.Contains(first, "github.com/elastic/go-seccomp-bpf") {
			what := strings.SplitN(stderr[k:], "\n", 2)[0]
			body := map[string]any{"property": id, "signature": sig, "what": what + " in " + first, "seed": seed, "tier": tier,
				"replay": map[string]any{"check": id, "stderr_tail": tail(stderr[k:], 6000)}}
			b, _ := json.MarshalIndent(body, "", " ")
			h := sha256.Sum256(b)
			dir := filepath.Join(vlib.VerifDir(), "replays")
			os.MkdirAll(dir, 0o755)
			path := filepath.Join(dir, fmt.Sprintf("%s-%s.json", id, hex.EncodeToString(h[:6])))
			os.WriteFile(path, b, 0o644)
			fmt.Printf("VIOLATION property=%s replay=%s\n", id, path)
			fmt.Printf("  %s: the Go runtime ended the process that was running the library: %s in %s\n", sig, what, first)
			fmt.Printf("RESULT property=%s violated: 1 refuting observations (the check process did not survive)\n", id)
			writeEvidence(1, what+" in "+first)
			os.Exit(1)
		}
	}
	note := fmt.Sprintf("the check process ended abnormally (status %d): %s", code, lastLine(stderr))
	fmt.Printf("INCONCLUSIVE property=%s %s\n", id, note)
	writeEvidence(0, note)
	os.Exit(vlib.ExitInconclusive)
}

func lastLine(s string) string {
	if k := strings.Index(s, "fatal error: "); k >= 0 {
		return strings.SplitN(s[k:], "\n", 2)[0]
	}
	l := strings.Split(strings.TrimSpace(s), "\n")
	return l[len(l)-1]
}
