package main

import (
	"bytes"
	"crypto/sha256"
	"encoding/hex"
	"errors"
	"fmt"
	"io"
	"math/rand"
	"os"
	"os/exec"
	"path/filepath"
	"reflect"
	"strings"
	"sync"
	"sync/atomic"

	seccomp "github.com/elastic/go-seccomp-bpf"
	"github.com/elastic/go-seccomp-bpf/arch"
	"golang.org/x/net/bpf"

	"verif/harness/vlib"
)

func init() {
	checks["C13"] = c13
	checks["c13-dump"] = c13Dump
	checks["c13-race"] = c13Race
}

// c13Policies is a fixed list of policies (function of the seed only).
func c13Policies(seed int64, n int, ts []*vlib.Target) []vlib.PolicySpec {
	run := &vlib.Run{ID: "C13", Seed: seed}
	var out []vlib.PolicySpec
	for i := 0; i < n; i++ {
		r := caseRand(run, i)
		t := ts[i%len(ts)]
		var p *seccomp.Policy
		if i%3 == 0 {
			p = vlib.GenNamesOnly(r, t, r.Intn(3), vlib.NamedActions, vlib.NamedActions)
		} else {
			mp := vlib.DefaultMixed()
			if i%5 == 0 {
				mp.LongListChance, mp.BigNamesChance = 2, 3
			}
			p = vlib.GenMixed(r, t, mp)
		}
		out = append(out, vlib.SpecOf(p, t.Name))
		// a near-duplicate of the previous policy: same shape, one element different, so that
		// anything remembered from one compilation (by shape, length, address) shows in the next
		if i%4 == 3 {
			out[len(out)-1] = mutateSpec(r, out[len(out)-2], ts)
		}
	}
	// sibling lists: one syscall listed two or three times in a group, every list a single condition with the same
	// operation on the same argument and another operand (what a compiler may be tempted to merge), for every operation;
	// once with a further entry of another syscall in between
	for oi, op := range seccomp.Operations {
		for v := 0; v < 2; v++ {
			t := ts[(oi+v)%len(ts)]
			r := caseRand(run, 900000+oi*2+v)
			nm, other := t.Names[r.Intn(len(t.Names))], t.Names[r.Intn(len(t.Names))]
			arg := uint32((oi + v) % 6)
			one := func(val uint64) seccomp.NameWithConditions {
				return seccomp.NameWithConditions{Name: nm, Conditions: seccomp.ArgumentConditions{{Argument: arg, Operation: op, Value: val}}}
			}
			with := []seccomp.NameWithConditions{one(0x10), one(0x0400_0000_0001)}
			if v == 1 {
				with = append(with, one(0x8000_0000_0000_0002))
				if other != nm {
					with = append(with[:1], append([]seccomp.NameWithConditions{{Name: other, Conditions: seccomp.ArgumentConditions{{Argument: arg, Operation: op, Value: 0x20}}}}, with[1:]...)...)
				}
			}
			p := &seccomp.Policy{DefaultAction: vlib.RetAllow, Syscalls: []seccomp.SyscallGroup{{NamesWithCondtions: with, Action: vlib.RetErrno}}}
			out = append(out, vlib.SpecOf(p, t.Name))
		}
	}
	return out
}

// mutateSpec copies a policy and changes exactly one element of it.
func mutateSpec(r *rand.Rand, s vlib.PolicySpec, ts []*vlib.Target) vlib.PolicySpec {
	t := targetByName(ts, s.Arch)
	m := vlib.SpecOf(s.Policy(), s.Arch)
	for try := 0; try < 20; try++ {
		gi := r.Intn(len(m.Groups))
		g := &m.Groups[gi]
		switch r.Intn(4) {
		case 0: // another action
			g.Action = uint32(vlib.NamedActions[r.Intn(len(vlib.NamedActions))])
			return m
		case 1: // another default
			m.Default = uint32(vlib.NamedActions[r.Intn(len(vlib.NamedActions))])
			return m
		case 2: // one name replaced by an unused one
			if len(g.Names) == 0 {
				continue
			}
			used := map[string]bool{}
			for _, n := range g.Names {
				used[n] = true
			}
			for _, e := range g.With {
				used[e.Name] = true
			}
			for k := 0; k < 50; k++ {
				n := t.Names[r.Intn(len(t.Names))]
				if !used[n] {
					g.Names[r.Intn(len(g.Names))] = n
					return m
				}
			}
		default: // one operand / argument / operation changed
			if len(g.With) == 0 {
				continue
			}
			e := &g.With[r.Intn(len(g.With))]
			c := &e.Conds[r.Intn(len(e.Conds))]
			switch r.Intn(3) {
			case 0:
				c.Val ^= 1 << uint(r.Intn(64))
			case 1:
				c.Arg = (c.Arg + 1 + uint32(r.Intn(5))) % 6
			default:
				c.Op = string(vlib.AllOps[r.Intn(8)])
			}
			return m
		}
	}
	return m
}

func progDigest(ins []bpf.Instruction, err error) string {
	h := sha256.New()
	if err != nil {
		fmt.Fprintf(h, "err:%v", err)
	}
	for _, in := range ins {
		fmt.Fprintf(h, "%#v;", in)
	}
	return hex.EncodeToString(h.Sum(nil)[:8])
}

func targetByName(ts []*vlib.Target, name string) *vlib.Target {
	for _, t := range ts {
		if t.Name == name {
			return t
		}
	}
	return nil
}

var c13FlagValues = []seccomp.FilterFlag{0, 1, 2, 3, 4, 5, 6, 7, 8, 9, 10, 11, 12, 13, 14, 15, 16, 17, 19, 1 << 31, 0xffffffff, 0xfffffffc}
var c13ActionValues = []seccomp.Action{vlib.RetKillThread, vlib.RetKillProcess, vlib.RetTrap, vlib.RetErrno, vlib.RetTrace, vlib.RetLog, vlib.RetAllow, vlib.RetUserNotif, 1, 0x50001, 0x7fff0001, 0xffffffff}

// textForms returns the text form of every flag and action value. What a
// conversion returns belongs to the caller: after its text has been copied,
// every returned byte slice is overwritten and appended to, as a caller may
// do; later conversions must not be influenced by that.
func textForms() []string {
	var out []string
	scribble := func(b []byte) {
		for i := range b {
			b[i] = 'X'
		}
		_ = append(b, "-caller-owned"...)
	}
	for _, f := range c13FlagValues {
		b, _ := f.MarshalText()
		out = append(out, fmt.Sprintf("flag %#x: %q %q", uint32(f), f.String(), string(b)))
		scribble(b)
	}
	for _, a := range c13ActionValues {
		b, _ := a.MarshalText()
		out = append(out, fmt.Sprintf("action %#x: %q %q", uint32(a), a.String(), string(b)))
		scribble(b)
	}
	// architecture words: the named ones, unnamed ones, and one that no earlier call has converted
	fresh := 0x10000 + uint32(atomic.AddUint32(&c13FreshArch, 1))
	for _, v := range append([]uint32{uint32(arch.X86_64.ID), uint32(arch.I386.ID), uint32(arch.ARM.ID), uint32(arch.AARCH64.ID), 0, 1, 0x28, 0x40000028 ^ 1, 0xc000003e ^ 0x80000000, 0xdeadbeef, 0xffffffff}, fresh) {
		s := arch.AuditArch(v).String()
		if v == fresh {
			if s != fmt.Sprintf("unknown[%d]", v) && !strings.Contains(s, fmt.Sprint(v)) && !strings.Contains(s, fmt.Sprintf("%x", v)) {
				out = append(out, fmt.Sprintf("audit arch (fresh value %#x): %q does not mention the value", v, s))
			}
			continue // differs from call to call by construction
		}
		out = append(out, fmt.Sprintf("audit arch %#x: %q", v, s))
	}
	return out
}

var c13FreshArch uint32

// c13Dump: digest of compiling the fixed policy list + all text forms, for
// comparison between processes.
func c13Dump() {
	drun := vlib.NewRun("C13", "exploration")
	_, ts := mustTargets(drun)
	for g, d := range c13ColdStart(drun, ts) { // concurrent first compilations of this fresh process
		if g == 0 || d != "" {
			fmt.Printf("cold %s\n", d)
		}
	}
	seed := int64(1)
	fmt.Sscan(os.Getenv("VERIF_SEED"), &seed)
	for i, s := range c13Policies(seed, 120, ts) {
		c := vlib.Compile(s.Policy(), targetByName(ts, s.Arch))
		fmt.Printf("policy %d %s\n", i, progDigest(c.Ins, c.Err))
		var buf bytes.Buffer
		p := s.Policy()
		seccomp.VerifSetArch(p, targetByName(ts, s.Arch).Info)
		p.Dump(&buf)
		h := sha256.Sum256(buf.Bytes())
		fmt.Printf("dump %d %s\n", i, hex.EncodeToString(h[:8]))
	}
	for _, l := range textForms() {
		fmt.Println(l)
	}
}

// sharedCopies builds k struct copies of one policy that share the Syscalls,
// Names and Conditions backing arrays, all with spare capacity holding
// sentinels.
type sentinelCheck func() string

func withSpareCapacity(s vlib.PolicySpec) (*seccomp.Policy, sentinelCheck) {
	p := s.Policy()
	var checks []func() string
	groups := make([]seccomp.SyscallGroup, len(p.Syscalls), len(p.Syscalls)+3)
	copy(groups, p.Syscalls)
	spareG := groups[:cap(groups)]
	for i := len(groups); i < cap(groups); i++ {
		spareG[i] = seccomp.SyscallGroup{Names: []string{"SENTINEL"}, Action: 0xdead}
	}
	checks = append(checks, func() string {
		for i := len(groups); i < cap(groups); i++ {
			g := groups[:cap(groups)][i]
			if g.Action != 0xdead || len(g.Names) != 1 || g.Names[0] != "SENTINEL" {
				return fmt.Sprintf("spare capacity of Syscalls overwritten at %d: %+v", i, g)
			}
		}
		return ""
	})
	for gi := range groups {
		g := &groups[gi]
		if g.Names != nil {
			names := make([]string, len(g.Names), len(g.Names)+4)
			copy(names, g.Names)
			for i := len(names); i < cap(names); i++ {
				names[:cap(names)][i] = "SENTINEL"
			}
			g.Names = names
			checks = append(checks, func() string {
				for i := len(names); i < cap(names); i++ {
					if names[:cap(names)][i] != "SENTINEL" {
						return fmt.Sprintf("spare capacity of Names overwritten: %q", names[:cap(names)][i])
					}
				}
				return ""
			})
		}
		if g.NamesWithCondtions != nil {
			w := make([]seccomp.NameWithConditions, len(g.NamesWithCondtions), len(g.NamesWithCondtions)+4)
			copy(w, g.NamesWithCondtions)
			for i := len(w); i < cap(w); i++ {
				w[:cap(w)][i] = seccomp.NameWithConditions{Name: "SENTINEL"}
			}
			for wi := range w {
				cs := make(seccomp.ArgumentConditions, len(w[wi].Conditions), len(w[wi].Conditions)+4)
				copy(cs, w[wi].Conditions)
				for i := len(cs); i < cap(cs); i++ {
					cs[:cap(cs)][i] = seccomp.Condition{Argument: 99, Operation: "SENTINEL", Value: 0xdead}
				}
				w[wi].Conditions = cs
				checks = append(checks, func() string {
					for i := len(cs); i < cap(cs); i++ {
						if c := cs[:cap(cs)][i]; c.Argument != 99 || c.Operation != "SENTINEL" || c.Value != 0xdead {
							return fmt.Sprintf("spare capacity of a condition list overwritten: %+v", c)
						}
					}
					return ""
				})
			}
			g.NamesWithCondtions = w
			checks = append(checks, func() string {
				for i := len(w); i < cap(w); i++ {
					if w[:cap(w)][i].Name != "SENTINEL" || w[:cap(w)][i].Conditions != nil {
						return fmt.Sprintf("spare capacity of NamesWithCondtions overwritten: %+v", w[:cap(w)][i])
					}
				}
				return ""
			})
		}
	}
	p.Syscalls = groups
	return p, func() string {
		for _, c := range checks {
			if m := c(); m != "" {
				return m
			}
		}
		return ""
	}
}

// c13Workload is run both with and without the race detector.
// c13CopiesOfAssembled: a history plus a schedule. A policy is compiled once; then value copies of it (taken afterwards, so
// that they carry whatever the compilation left in the value) - identical ones, ones with another default action, ones
// whose group list is another policy's - are compiled at the same time by goroutines of their own, each with its own
// Policy value. Every result must be what a fresh, equal policy gives.
func c13CopiesOfAssembled(run *vlib.Run, ts []*vlib.Target, specs []vlib.PolicySpec, rounds int) {
	for base := 0; base+1 < len(specs); base += 5 {
		s := specs[base]
		t := targetByName(ts, s.Arch)
		p0 := s.Policy()
		if c := vlib.Compile(p0, t); !c.OK() {
			continue
		}
		var buf bytes.Buffer
		p0.Dump(&buf) // and dumped once, as a caller may before loading
		const k = 8
		var copies [k]*seccomp.Policy
		var want [k]string
		for j := 0; j < k; j++ {
			cp := *p0 // a plain value copy
			switch j % 4 {
			case 1:
				cp.DefaultAction = vlib.NamedActions[(base+j)%len(vlib.NamedActions)]
			case 2:
				// another policy's groups of the same architecture (fitting or not fitting what the first compilation sized)
				for o := 1; o < len(specs); o++ {
					if os := specs[(base+o*(j+1))%len(specs)]; os.Arch == s.Arch {
						cp.Syscalls = os.Policy().Syscalls
						break
					}
				}
			case 3:
				if n := len(cp.Syscalls); n > 1 {
					cp.Syscalls = append([]seccomp.SyscallGroup(nil), cp.Syscalls[:n-1]...)
				}
			}
			copies[j] = &cp
			fresh := vlib.Compile(vlib.SpecOf(&cp, s.Arch).Policy(), t)
			want[j] = progDigest(fresh.Ins, fresh.Err)
		}
		for round := 0; round < rounds; round++ {
			var wg sync.WaitGroup
			start := make(chan struct{})
			var got [k]string
			for j := 0; j < k; j++ {
				wg.Add(1)
				go func(j int) {
					defer wg.Done()
					<-start
					c := vlib.Compile(copies[j], t)
					got[j] = progDigest(c.Ins, c.Err)
				}(j)
			}
			close(start)
			wg.Wait()
			run.Count("concurrent_compilations_of_copies_of_an_assembled_value", k)
			for j := 0; j < k; j++ {
				if got[j] != want[j] {
					run.Violation("copy-of-assembled-value-compiles-differently", fmt.Sprintf("policy %d was compiled and dumped once; value copy %d of it (variant %d), compiled next to %d other copies in goroutines of their own, gives another program than a fresh equal policy (%s vs %s)", base, j, j%4, k-1, got[j], want[j]),
						map[string]any{"check": "C13", "policy": vlib.SpecOf(copies[j], s.Arch), "base_policy": s})
					return
				}
			}
		}
	}
}

func c13Workload(run *vlib.Run, ts []*vlib.Target, nPolicies, rounds int) {
	specs := c13Policies(run.Seed, nPolicies, ts)
	defer c13CopiesOfAssembled(run, ts, specs, 2+rounds)
	// sequential golden run
	golden := make([]string, len(specs))
	goldenDump := make([]string, len(specs))
	for i, s := range specs {
		c := vlib.Compile(s.Policy(), targetByName(ts, s.Arch))
		golden[i] = progDigest(c.Ins, c.Err)
		var buf bytes.Buffer
		p := s.Policy()
		seccomp.VerifSetArch(p, targetByName(ts, s.Arch).Info)
		p.Dump(&buf)
		goldenDump[i] = buf.String()
	}
	texts := textForms()
	var stop atomic.Bool
	var wg sync.WaitGroup

	// background goroutines: lookups and text conversions
	for b := 0; b < 4; b++ {
		wg.Add(1)
		go func(b int) {
			defer wg.Done()
			n := 0
			for !stop.Load() {
				for _, name := range []string{"amd64", "ARM64", "i386", "arm", "x32", "ppc", ""} {
					info, err := arch.GetInfo(name)
					if name == "ppc" {
						if err == nil {
							run.Violation("concurrent-getinfo", "GetInfo(ppc) succeeded during concurrent use", nil)
						}
					} else if err != nil || info == nil || len(info.SyscallNames) == 0 {
						run.Violation("concurrent-getinfo", fmt.Sprintf("GetInfo(%q) failed during concurrent use: %v", name, err), nil)
					}
				}
				got := textForms()
				if !reflect.DeepEqual(got, texts) {
					for k := range got {
						if got[k] != texts[k] {
							run.Violation("text-form-varies", fmt.Sprintf("text form changed between calls: %s vs %s", texts[k], got[k]), map[string]any{"check": "C13", "first": texts[k], "later": got[k]})
							break
						}
					}
				}
				var a seccomp.Action = vlib.RetAllow
				if err := a.Unpack("Kill_Process"); err != nil || a != vlib.RetKillProcess {
					run.Violation("concurrent-unpack", fmt.Sprintf("Action.Unpack during concurrent use: %v %v", a, err), nil)
				}
				var op seccomp.Operation
				if err := op.Unpack("bitsset"); err != nil || op != "BitsSet" {
					run.Violation("concurrent-unpack", fmt.Sprintf("Operation.Unpack during concurrent use: %v %v", op, err), nil)
				}
				n++
			}
			run.Count("background_iterations", int64(n))
		}(b)
	}

	// 16 compiling goroutines
	var cwg sync.WaitGroup
	for g := 0; g < 16; g++ {
		cwg.Add(1)
		go func(g int) {
			defer cwg.Done()
			for round := 0; round < rounds; round++ {
				for k := 0; k < len(specs); k++ {
					i := (k*7 + g*13 + round) % len(specs)
					s := specs[i]
					t := targetByName(ts, s.Arch)
					p := s.Policy() // distinct value
					before := vlib.SpecOf(p, s.Arch)
					if (k+g)%9 == 4 {
						// history: the groups are first assembled on their own through the exported method (whatever that gives - on
						// the pinned tree it needs an architecture it does not have), then the policy is compiled as ever
						for gi := range p.Syscalls {
							func() {
								defer func() { recover() }()
								p.Syscalls[gi].Assemble(p.DefaultAction)
							}()
						}
						run.Count("policies_whose_groups_were_assembled_on_their_own_first", 1)
					}
					if (k+g)%16 == 5 {
						// a caller of the exported builder at work in the same process: a small label program, assembled twice
						// (a legitimate call sequence) - whatever that leaves behind must not show in the compilations
						func() {
							defer func() { recover() }()
							bp := seccomp.NewProgram()
							far, near := bp.NewLabel(), bp.NewLabel()
							bp.LdLo(0)
							bp.JmpIf(bpf.JumpEqual, uint32(k), far, near)
							bp.SetLabel(near)
							for x := 0; x < 3+(k%5)*70; x++ {
								bp.LdHi(uint32(x % 6))
							}
							bp.Ret(vlib.RetAllow)
							bp.SetLabel(far)
							bp.Ret(vlib.RetErrno)
							bp.Assemble()
							bp.Assemble()
						}()
						run.Count("label_programs_assembled_twice_next_to_the_compilations", 1)
					}
					c := vlib.Compile(p, t)
					run.Count("compilations", 1)
					d0 := progDigest(c.Ins, c.Err)
					for k := range c.Ins { // the returned program belongs to the caller: overwrite it after use
						c.Ins[k] = bpf.RetConstant{Val: 0xdeadbeef}
					}
					if d := d0; d != golden[i] {
						run.Violation("nondeterministic-compilation", fmt.Sprintf("policy %d compiled in goroutine %d differs from the sequential golden run (%s vs %s)", i, g, d, golden[i]), map[string]any{"check": "C13", "policy": s})
						return
					}
					if after := vlib.SpecOf(p, s.Arch); !reflect.DeepEqual(before, after) {
						run.Violation("policy-modified", fmt.Sprintf("policy %d was modified by Assemble", i), map[string]any{"check": "C13", "before": before, "after": after})
						return
					}
					if (k+g)%8 == 1 && i+1 < len(specs) && specs[i+1].Arch == s.Arch {
						// history: the same value edited in place to equal the next policy of the list and compiled again
						// must give what a fresh, equal policy gives
						next := specs[i+1].Policy()
						p.DefaultAction, p.Syscalls = next.DefaultAction, next.Syscalls
						c2 := vlib.Compile(p, t)
						run.Count("recompilations_after_in_place_edit", 1)
						if d := progDigest(c2.Ins, c2.Err); d != golden[i+1] {
							run.Violation("stale-after-in-place-edit", fmt.Sprintf("policy %d edited in place to equal policy %d compiles to something else than a fresh equal policy", i, i+1), map[string]any{"check": "C13", "policy": specs[i+1]})
							return
						}
						// what an earlier call returned belongs to the caller: the later call must not have written into it
						for k := range c.Ins {
							if rc, ok := c.Ins[k].(bpf.RetConstant); !ok || rc.Val != 0xdeadbeef {
								run.Violation("earlier-result-overwritten-by-later-call", fmt.Sprintf("the program returned by the first Assemble of policy %d (overwritten by its caller) was written to by a later Assemble of the same value: instruction %d is now %v", i, k, c.Ins[k]), map[string]any{"check": "C13", "policy": s})
								return
							}
						}
						// a copy of the value taken after it was compiled, compiled in turn: the result above stays what it is
						cp := *p
						cp.DefaultAction = specs[i].Policy().DefaultAction
						c3 := vlib.Compile(&cp, t)
						_ = c3
						if d := progDigest(c2.Ins, c2.Err); d != golden[i+1] {
							run.Violation("earlier-result-overwritten-by-later-call", fmt.Sprintf("the program returned by Assemble for policy %d changed when a copy of the value was compiled afterwards", i+1), map[string]any{"check": "C13", "policy": specs[i+1]})
							return
						}
						run.Count("earlier_results_checked_after_later_calls", 1)
						// a finer edit: one condition of the compiled value changed where it stands (operand, operation or argument
						// index; no length, name or action changes), compiled again: what a fresh, equal policy gives
						edited := false
					findCond:
						for gi := range p.Syscalls {
							for ei := range p.Syscalls[gi].NamesWithCondtions {
								cs := p.Syscalls[gi].NamesWithCondtions[ei].Conditions
								if len(cs) == 0 {
									continue
								}
								ci := (k + g + round) % len(cs)
								switch (k + g + round) % 3 {
								case 0:
									cs[ci].Value ^= 1 << uint((k*7+g)%64)
								case 1:
									for _, op := range seccomp.Operations {
										if op != cs[ci].Operation {
											cs[ci].Operation = op
											break
										}
									}
								default:
									cs[ci].Argument = (cs[ci].Argument + 1) % 6
								}
								edited = true
								break findCond
							}
						}
						if edited {
							fresh := vlib.SpecOf(p, s.Arch).Policy() // a deep copy of the value as it is now
							want := vlib.Compile(fresh, t)
							got := vlib.Compile(p, t)
							run.Count("recompilations_after_a_condition_was_edited_in_place", 1)
							if dw, dg := progDigest(want.Ins, want.Err), progDigest(got.Ins, got.Err); dw != dg {
								run.Violation("stale-after-in-place-edit", fmt.Sprintf("policy %d: after one condition was changed in place, the same Policy value compiles to something else than a fresh equal policy", i+1), map[string]any{"check": "C13", "policy": vlib.SpecOf(p, s.Arch)})
								return
							}
						}
						continue
					}
					if (k+g)%4 == 0 {
						if (k+g)%8 == 0 {
							// a listing written to a writer that fails or writes short after some bytes: the next listing is what it is
							p.Dump(&failingWriter{left: (k*37 + g*11 + round) % 200, short: (k+round)%2 == 0})
							run.Count("dumps_into_failing_writers", 1)
						}
						var buf bytes.Buffer
						if err := p.Dump(&buf); (err == nil) != (c.Err == nil) || (err == nil && buf.String() != goldenDump[i]) {
							run.Violation("nondeterministic-dump", fmt.Sprintf("Dump of policy %d differs from the golden run", i), map[string]any{"check": "C13", "policy": s})
							return
						}
						run.Count("dumps", 1)
					}
				}
			}
		}(g)
	}
	cwg.Wait()

	// copies sharing backing arrays, compiled concurrently, k times each
	for i := 0; i < len(specs); i += 3 {
		s := specs[i]
		t := targetByName(ts, s.Arch)
		base, sentinels := withSpareCapacity(s)
		before := vlib.SpecOf(base, s.Arch)
		var swg sync.WaitGroup
		for g := 0; g < 8; g++ {
			swg.Add(1)
			go func(g int) {
				defer swg.Done()
				cp := *base // struct copy: shares Syscalls, Names, Conditions
				for k := 0; k < 3; k++ {
					c := vlib.Compile(&cp, t)
					run.Count("compilations_of_sharing_copies", 1)
					if d := progDigest(c.Ins, c.Err); d != golden[i] {
						run.Violation("nondeterministic-compilation-shared", fmt.Sprintf("policy %d (copy sharing slices, goroutine %d, repetition %d) compiled to a different program", i, g, k), map[string]any{"check": "C13", "policy": s})
						return
					}
				}
			}(g)
		}
		swg.Wait()
		if after := vlib.SpecOf(base, s.Arch); !reflect.DeepEqual(before, after) {
			run.Violation("policy-modified-shared", fmt.Sprintf("policy %d was modified through a copy sharing its slices", i), map[string]any{"check": "C13", "before": before, "after": after})
		}
		if m := sentinels(); m != "" {
			run.Violation("append-into-callers-array", fmt.Sprintf("policy %d: %s", i, m), map[string]any{"check": "C13", "policy": s})
		}
		run.Count("sharing_groups", 1)
	}
	stop.Store(true)
	wg.Wait()

	// repeated text conversion of every value
	for rep := 0; rep < 10000; rep++ {
		got := textForms()
		for k := range got {
			if got[k] != texts[k] {
				run.Violation("text-form-varies:"+strings.SplitN(texts[k], ":", 2)[0], fmt.Sprintf("the text form of one value differs between calls: %s vs %s", texts[k], got[k]), map[string]any{"check": "C13", "first": texts[k], "later": got[k]})
				rep = 10000
				break
			}
		}
		run.Count("text_conversions", int64(len(got)))
	}
}

// c13ColdStart: the very first compilations of a process happen concurrently (nothing has been compiled or converted
// before, so anything the package initialises lazily is initialised under contention). All goroutines compile equal
// policies and must get identical programs.
func c13ColdStart(run *vlib.Run, ts []*vlib.Target) []string {
	t := targetByName(ts, "x86_64")
	spec := vlib.PolicySpec{Arch: "x86_64", Default: vlib.RetAllow, Groups: []vlib.GroupSpec{{Action: vlib.RetErrno, Names: []string{"getppid"},
		With: []vlib.EntrySpec{{Name: "read", Conds: []vlib.CondSpec{{Arg: 0, Op: "Equal", Val: 1<<40 | 7}, {Arg: 5, Op: "GreaterThan", Val: 1 << 33}}},
			{Name: "write", Conds: []vlib.CondSpec{{Arg: 2, Op: "BitsSet", Val: 0xff00000000}}}}}}}
	const n = 32
	var start, done sync.WaitGroup
	start.Add(1)
	digests := make([]string, n)
	for g := 0; g < n; g++ {
		done.Add(1)
		go func(g int) {
			defer done.Done()
			p := spec.Policy()
			start.Wait()
			c := vlib.Compile(p, t)
			digests[g] = progDigest(c.Ins, c.Err)
		}(g)
	}
	start.Done()
	done.Wait()
	for g := 1; g < n; g++ {
		if digests[g] != digests[0] {
			run.Violation("cold-start-compilations-differ", fmt.Sprintf("the first %d compilations of the process, run concurrently on equal policies, gave different programs (%s vs %s)", n, digests[0], digests[g]), map[string]any{"check": "C13", "policy": spec})
			break
		}
	}
	run.Count("cold_start_concurrent_compilations", n)
	return digests
}

func c13Race() {
	run := vlib.NewRun("C13", "exploration")
	_, ts := mustTargets(run)
	cold := c13ColdStart(run, ts)
	fmt.Println("cold-start digest", cold[0])
	c13Workload(run, ts, run.N(60, 240), run.N(1, 3))
	fmt.Printf("race-workload compilations=%d sharing=%d violations=%d\n", run.Counter("compilations"), run.Counter("compilations_of_sharing_copies"), run.Violations())
	if run.Violations() > 0 {
		os.Exit(1)
	}
	os.Exit(0)
}

func c13() {
	run := vlib.NewRun("C13", "exploration")
	_, ts := mustTargets(run)

	// (a) in-process workload without the race detector (more volume)
	c13Workload(run, ts, run.N(120, 600), run.N(2, 10))

	// (b) across processes
	nproc := run.N(12, 60)
	sums := map[string]int{}
	var mu sync.Mutex
	var sampleOut string
	outs := map[string]string{}
	vlib.Parallel(nproc, func(i int) {
		cmd := exec.Command(os.Args[0], "c13-dump")
		var out bytes.Buffer
		cmd.Stdout = &out
		if err := cmd.Run(); err != nil {
			run.Inconclusive("dump process failed: " + err.Error())
			return
		}
		h := sha256.Sum256(out.Bytes())
		k := hex.EncodeToString(h[:8])
		mu.Lock()
		sums[k]++
		outs[k] = out.String()
		sampleOut = out.String()
		mu.Unlock()
		run.Count("dump_processes", 1)
	})
	if len(sums) > 1 {
		// name the first differing line
		var keys []string
		for k := range outs {
			keys = append(keys, k)
		}
		a, b := strings.Split(outs[keys[0]], "\n"), strings.Split(outs[keys[1]], "\n")
		diff := ""
		for i := range a {
			if i < len(b) && a[i] != b[i] {
				diff = a[i] + "  vs  " + b[i]
				break
			}
		}
		sig := "processes-disagree"
		if strings.HasPrefix(diff, "flag") || strings.HasPrefix(diff, "action") {
			sig = "text-form-varies-between-processes"
		}
		run.Violation(sig, fmt.Sprintf("%d fresh processes produced %d different outputs for the same policies/values; first difference: %s", nproc, len(sums), diff), map[string]any{"check": "C13", "digests": sums, "difference": diff})
	}
	run.Set("process_output_digests", sums)

	// (c) the same workload under the race detector
	bin := os.Getenv("VERIF_BIN")
	if bin == "" {
		bin = os.TempDir()
	}
	raceBin := filepath.Join(bin, "vc-race")
	build := exec.Command("go", "build", "-race", "-tags", "verif", "-o", raceBin, "./cmd/vc")
	build.Dir = filepath.Join(vlib.VerifDir(), "harness")
	if out, err := build.CombinedOutput(); err != nil {
		run.Inconclusive("cannot build the race-detector variant: " + err.Error() + ": " + string(out))
	} else {
		reps := run.N(2, 10)
		races := 0
		frames := map[string]bool{}
		for rep := 0; rep < reps; rep++ {
			logp := filepath.Join(bin, fmt.Sprintf("race-%d.log", rep))
			cmd := exec.Command(raceBin, "c13-race")
			cmd.Env = append(os.Environ(), "GORACE=halt_on_error=0 log_path="+logp, fmt.Sprintf("VERIF_SEED=%d", run.Seed+int64(rep)))
			out, err := cmd.CombinedOutput()
			run.Count("race_detector_runs", 1)
			if err != nil && !strings.Contains(string(out), "race-workload") {
				run.Inconclusive("race workload ended abnormally: " + err.Error() + ": " + string(out[:min(len(out), 400)]))
			}
			var c1, c2 int64
			fmt.Sscanf(string(out[strings.Index(string(out)+"race-workload", "race-workload"):]), "race-workload compilations=%d sharing=%d", &c1, &c2)
			run.Count("compilations_under_race_detector", c1+c2)
			logs, _ := filepath.Glob(logp + ".*")
			for _, l := range logs {
				b, _ := os.ReadFile(l)
				blocks := strings.Split(string(b), "WARNING: DATA RACE")
				for _, blk := range blocks[1:] {
					races++
					// dedupe by the first frame inside the module under test or the harness
					key := "?"
					for _, line := range strings.Split(blk, "\n") {
						line = strings.TrimSpace(line)
						if strings.HasPrefix(line, "github.com/elastic/go-seccomp-bpf") {
							key = strings.SplitN(line, "(", 2)[0]
							break
						}
					}
					if !frames[key] {
						frames[key] = true
						run.Violation("data-race:"+key, fmt.Sprintf("the race detector reports a data race in %s:\n%s", key, blk[:min(len(blk), 1500)]), map[string]any{"check": "C13", "report": blk})
					}
				}
			}
		}
		run.Set("race_reports", races)
		run.Set("race_reports_distinct", len(frames))
	}
	c13BesideLoads(run, ts)
	run.Sample(2, map[string]any{"process_dump_first_lines": strings.Split(sampleOut, "\n")[:min(4, len(strings.Split(sampleOut, "\n")))]})
	run.Sample(2, map[string]any{"text_forms": textForms()[:6]})
	run.Assume("compiling the same *Policy pointer concurrently is outside the property (distinct values only)",
		"a clean race-detector run covers only the interleavings that occurred")
	if run.Violations() == 0 {
		run.Require("compilations", 1000)
		run.Require("compilations_of_sharing_copies", 100)
		run.Require("dump_processes", int64(nproc))
		run.Require("compilations_under_race_detector", 500)
		run.Require("compilation_rounds_beside_loads", 8)
	}
	run.Finish(run.Counter("compilations")+run.Counter("compilations_of_sharing_copies")+run.Counter("compilations_under_race_detector")+run.Counter("text_conversions"),
		int64(len(c13Policies(run.Seed, run.N(120, 600), ts))),
		"fixed PRNG list of name-only and mixed policies compiled by 16 goroutines (distinct values; struct copies sharing Syscalls/Names/Conditions arrays with sentinel-filled spare capacity) while 4 goroutines run GetInfo/Unpack/String; every program and Dump compared with a sequential golden run; deep comparison of the policy before/after; the same workload under the race detector; N fresh processes must print identical digests and text forms; distinct = policies in the list")
}

// failingWriter accepts left bytes and then fails (or reports a short write without error text of its own).
type failingWriter struct {
	left  int
	short bool
}

func (w *failingWriter) Write(b []byte) (int, error) {
	if len(b) <= w.left {
		w.left -= len(b)
		return len(b), nil
	}
	n := w.left
	w.left = 0
	if w.short {
		return n, io.ErrShortWrite
	}
	return n, errors.New("injected write failure")
}
