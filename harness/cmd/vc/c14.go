package main

import (
	"encoding/json"
	"fmt"
	"math/rand"
	"os"
	"path/filepath"
	"strings"
	"sync"

	ucfgyaml "github.com/elastic/go-ucfg/yaml"
	yaml "gopkg.in/yaml.v2"

	seccomp "github.com/elastic/go-seccomp-bpf"

	"verif/harness/vlib"
)

func init() { checks["C14"] = c14 }

var docActions = map[string]seccomp.Action{
	"kill_thread": vlib.RetKillThread, "kill_process": vlib.RetKillProcess, "trap": vlib.RetTrap, "errno": vlib.RetErrno,
	"trace": vlib.RetTrace, "log": vlib.RetLog, "allow": vlib.RetAllow,
}

var docOps = []string{"Equal", "NotEqual", "GreaterThan", "LessThan", "GreaterOrEqual", "LessOrEqual", "BitsSet", "BitsNotSet"}

func isASCII(s string) bool {
	for i := 0; i < len(s); i++ {
		if s[i] >= 0x80 {
			return false
		}
	}
	return true
}

// caseVariants enumerates all ASCII case masks of short names and PRNG masks
// of long ones.
func caseVariants(r *rand.Rand, name string, max int) []string {
	letters := []int{}
	for i, c := range name {
		if (c >= 'a' && c <= 'z') || (c >= 'A' && c <= 'Z') {
			letters = append(letters, i)
		}
	}
	apply := func(mask uint64) string {
		b := []byte(strings.ToLower(name))
		for k, i := range letters {
			if mask&(1<<uint(k)) != 0 {
				b[i] -= 32
			}
		}
		return string(b)
	}
	var out []string
	if len(letters) <= 10 && 1<<uint(len(letters)) <= max {
		for m := uint64(0); m < 1<<uint(len(letters)); m++ {
			out = append(out, apply(m))
		}
		return out
	}
	out = append(out, apply(0), apply(^uint64(0)), name)
	for len(out) < max {
		out = append(out, apply(r.Uint64()))
	}
	return out
}

func nearMisses(name string) []string {
	return []string{"", " ", name + " ", " " + name, name + "\n", "\t" + name, name[:len(name)-1], name[1:], name + "s", name + name,
		strings.ReplaceAll(name, "_", "-"), strings.ReplaceAll(name, "_", ""), strings.ReplaceAll(name, "_", " "), name + "\x00", "0", "1", "0x7fff0000", "2147418112",
		"true", "null", "~", "unknown", "kill", "deny", "permit", "eq", "==", "Equals", "equal_to", "bits_set", "Bits Set", "notequal!", "ALLOW ALL"}
}

// byteMutants: every single-byte substitution (all 256 values at every position, which includes every
// single-bit flip), insertion, deletion and adjacent transposition of the name in lower, upper and mixed case.
func byteMutants(name string) []string {
	var out []string
	mixed := []byte(name)
	for i := range mixed {
		if i%2 == 0 && mixed[i] >= 'a' && mixed[i] <= 'z' {
			mixed[i] -= 32
		}
	}
	for _, base := range []string{name, strings.ToUpper(name), string(mixed)} {
		b := []byte(base)
		for i := range b {
			for v := 0; v < 256; v++ {
				if byte(v) == b[i] {
					continue
				}
				m := append([]byte(nil), b...)
				m[i] = byte(v)
				out = append(out, string(m))
			}
			out = append(out, string(append(append([]byte(nil), b[:i]...), b[i+1:]...)))
			if i+1 < len(b) && b[i] != b[i+1] {
				m := append([]byte(nil), b...)
				m[i], m[i+1] = m[i+1], m[i]
				out = append(out, string(m))
			}
		}
		for i := 0; i <= len(b); i++ {
			for _, v := range []byte{0, ' ', '_', '-', 0x7f, 0x80, 0xff, 'a', 'A', '\n'} {
				m := append(append(append([]byte(nil), b[:i]...), v), b[i:]...)
				out = append(out, string(m))
			}
		}
	}
	return out
}

// unicodeFolds replaces letters by characters that are equal to them only
// under Unicode case folding (Kelvin sign for k, long s for s).
func unicodeFolds(name string) []string {
	var out []string
	for _, rep := range [][2]string{{"k", "K"}, {"K", "K"}, {"s", "ſ"}, {"S", "ſ"}} {
		if strings.Contains(name, rep[0]) {
			out = append(out, strings.Replace(name, rep[0], rep[1], 1), strings.ReplaceAll(name, rep[0], rep[1]))
		}
	}
	return out
}

type loadedConfig struct {
	Seccomp seccomp.Policy
}

// loadThroughConfigPath is what cmd/sandbox's parsePolicy does, on bytes.
func loadThroughConfigPath(text []byte) (*seccomp.Policy, error) {
	conf, err := ucfgyaml.NewConfig(text)
	if err != nil {
		return nil, err
	}
	var c loadedConfig
	if err := conf.Unpack(&c); err != nil {
		return nil, err
	}
	return &c.Seccomp, nil
}

var actionText = map[uint32]string{vlib.RetKillThread: "kill_thread", vlib.RetKillProcess: "kill_process", vlib.RetTrap: "trap", vlib.RetErrno: "errno",
	vlib.RetTrace: "trace", vlib.RetLog: "log", vlib.RetAllow: "allow"}

// handYAML renders a policy in the documented spelling of the configuration
// (cmd/sandbox/seccomp.yml, README): argument/operation/value.
func handYAML(r *rand.Rand, s vlib.PolicySpec) string {
	var b strings.Builder
	variant := func(name string) string { // letter case of action names is free
		switch r.Intn(3) {
		case 0:
			return strings.ToUpper(name)
		case 1:
			return strings.ToUpper(name[:1]) + name[1:]
		}
		return name
	}
	fmt.Fprintf(&b, "seccomp:\n  default_action: %s\n  syscalls:\n", variant(actionText[s.Default]))
	for _, g := range s.Groups {
		fmt.Fprintf(&b, "  - action: %s\n", variant(actionText[g.Action]))
		if len(g.Names) > 0 {
			fmt.Fprintf(&b, "    names:\n")
			for _, n := range g.Names {
				fmt.Fprintf(&b, "    - %s\n", n)
			}
		}
		if len(g.With) > 0 {
			fmt.Fprintf(&b, "    names_with_args:\n")
			for _, e := range g.With {
				fmt.Fprintf(&b, "    - name: %s\n      arguments:\n", e.Name)
				for _, c := range e.Conds {
					op := c.Op
					switch r.Intn(3) {
					case 0:
						op = strings.ToLower(op)
					case 1:
						op = strings.ToUpper(op)
					}
					// the spellings of a number that a hand-written file may use (all accepted by the loader for this field)
					val := fmt.Sprintf("%d", c.Val)
					switch r.Intn(8) {
					case 0, 1:
						val = fmt.Sprintf("0x%x", c.Val)
					case 2:
						val = fmt.Sprintf("\"%d\"", c.Val)
					case 3:
						val = fmt.Sprintf("\"0x%x\"", c.Val)
					case 4:
						val = fmt.Sprintf("'0x%x'", c.Val)
					case 5:
						val = fmt.Sprintf("0X%X", c.Val)
					case 6:
						val = fmt.Sprintf("\"0b%b\"", c.Val)
					}
					fmt.Fprintf(&b, "      - argument: %d\n        operation: %s\n        value: %s\n", c.Arg, op, val)
				}
			}
		}
	}
	return b.String()
}

func c14() {
	run := vlib.NewRun("C14", "exploration")
	_, ts := mustTargets(run)
	r0 := caseRand(run, 0)
	distinct := map[string]bool{}
	var mu sync.Mutex

	// (a) parsers
	tryAction := func(s string) (seccomp.Action, error, seccomp.Action, error) {
		a1 := seccomp.Action(vlib.RetAllow)
		e1 := a1.Unpack(s)
		a2 := seccomp.Action(vlib.RetKillThread)
		e2 := a2.Unpack(s)
		return a1, e1, a2, e2
	}
	judgeAction := func(s string) {
		a1, e1, a2, e2 := tryAction(s)
		run.Count("action_strings", 1)
		replay := map[string]any{"check": "C14", "parser": "Action.Unpack", "input": s}
		if (e1 == nil) != (e2 == nil) || (e1 == nil && a1 != a2) {
			run.Violation("action-unpack-depends-on-receiver", fmt.Sprintf("Action.Unpack(%q) depends on the receiver's previous value: (%#x,%v) vs (%#x,%v)", s, uint32(a1), e1, uint32(a2), e2), replay)
			return
		}
		var foldEq *seccomp.Action
		var asciiEq *seccomp.Action
		for name, v := range docActions {
			v := v
			if strings.EqualFold(name, s) {
				foldEq = &v
				if isASCII(s) {
					asciiEq = &v
				}
			}
		}
		switch {
		case asciiEq != nil:
			if e1 != nil || a1 != *asciiEq {
				run.Violation("action-case-variant", fmt.Sprintf("Action.Unpack(%q) = (%#x, %v); it is a letter-case variant of a documented name and must give %#x", s, uint32(a1), e1, uint32(*asciiEq)), replay)
			}
			run.Count("action_strings_accepted", 1)
		case foldEq != nil: // equal only under non-ASCII folding: either way, but never another constant
			if e1 == nil && a1 != *foldEq {
				run.Violation("action-wrong-constant", fmt.Sprintf("Action.Unpack(%q) maps to %#x", s, uint32(a1)), replay)
			}
			run.Count("action_strings_unicode_fold", 1)
		default:
			if e1 == nil {
				run.Violation("action-unknown-accepted", fmt.Sprintf("Action.Unpack(%q) returns nil error and %#x for a string that is no documented action name", s, uint32(a1)), replay)
			} else if a2 == vlib.RetAllow || a2 == vlib.RetLog {
				// the receiver was kill_thread before the failed call: an unknown name must never end up as a permissive action
				run.Violation("action-permissive-on-error", fmt.Sprintf("Action.Unpack(%q) fails but leaves the permissive action %#x in a receiver that held kill_thread", s, uint32(a2)), replay)
			} else if a1 != vlib.RetAllow || a2 != vlib.RetKillThread {
				run.Count("receiver_changed_on_error_not_judged", 1)
			}
			run.Count("action_strings_rejected", 1)
		}
	}
	judgeOp := func(s string) {
		o1 := seccomp.Operation("PRESET")
		e1 := o1.Unpack(s)
		run.Count("operation_strings", 1)
		replay := map[string]any{"check": "C14", "parser": "Operation.Unpack", "input": s}
		var foldEq, asciiEq string
		for _, name := range docOps {
			if strings.EqualFold(name, s) {
				foldEq = name
				if isASCII(s) {
					asciiEq = name
				}
			}
		}
		switch {
		case asciiEq != "":
			if e1 != nil || string(o1) != asciiEq {
				run.Violation("operation-case-variant", fmt.Sprintf("Operation.Unpack(%q) = (%q, %v); must give %q", s, o1, e1, asciiEq), replay)
			}
			run.Count("operation_strings_accepted", 1)
		case foldEq != "":
			if e1 == nil && string(o1) != foldEq {
				run.Violation("operation-wrong-constant", fmt.Sprintf("Operation.Unpack(%q) maps to %q", s, o1), replay)
			}
		default:
			if e1 == nil {
				run.Violation("operation-unknown-accepted", fmt.Sprintf("Operation.Unpack(%q) returns nil error and %q", s, o1), replay)
			} else if o1 != "PRESET" {
				run.Count("receiver_changed_on_error_not_judged", 1)
			}
			run.Count("operation_strings_rejected", 1)
		}
	}
	for name, v := range docActions {
		for _, s := range caseVariants(r0, name, 4096) {
			judgeAction(s)
		}
		for _, s := range append(nearMisses(name), unicodeFolds(name)...) {
			judgeAction(s)
			judgeOp(s)
		}
		for _, s := range byteMutants(name) {
			judgeAction(s)
			run.Count("single_byte_mutants_of_documented_names", 1)
		}
		// printed form parses back
		if got := v.String(); got != name {
			run.Violation("action-string", fmt.Sprintf("Action(%#x).String()=%q, documented name is %q", uint32(v), got, name), map[string]any{"check": "C14", "value": uint32(v)})
		}
		var back seccomp.Action = 0x12345678
		if err := back.Unpack(v.String()); err != nil || back != v {
			run.Violation("action-print-parse", fmt.Sprintf("Unpack(String(%#x)) = %#x, %v", uint32(v), uint32(back), err), map[string]any{"check": "C14", "value": uint32(v)})
		}
		if b, err := v.MarshalText(); err != nil || string(b) != name {
			run.Violation("action-marshaltext", fmt.Sprintf("Action(%#x).MarshalText()=%q,%v", uint32(v), b, err), map[string]any{"check": "C14", "value": uint32(v)})
		}
		distinct["action:"+name] = true
	}
	// values next to the named constants (return data in the low 16 bits, off-by-one words): whatever prints as a
	// documented name must parse back to the very same value
	for _, base := range docActions {
		for _, d := range []uint32{1, 2, 13, 38, 0x7f, 0xff, 0x100, 0xfff, 0xffff, 0x10000, 0x80000000} {
			for _, v := range []seccomp.Action{base | seccomp.Action(d), base + seccomp.Action(d), base - seccomp.Action(d), base ^ seccomp.Action(d)} {
				txt := v.String()
				run.Count("neighbour_values_printed", 1)
				if want, isName := docActions[txt]; isName && want != v {
					run.Violation("unnamed-value-prints-as-name", fmt.Sprintf("Action(%#x).String()=%q, but %q denotes %#x: printing and parsing back changes the value", uint32(v), txt, txt, uint32(want)), map[string]any{"check": "C14", "value": uint32(v)})
				}
				if b, err := v.MarshalText(); err == nil {
					if want, isName := docActions[string(b)]; isName && want != v {
						run.Violation("unnamed-value-marshals-as-name", fmt.Sprintf("Action(%#x).MarshalText()=%q, which denotes %#x", uint32(v), b, uint32(want)), map[string]any{"check": "C14", "value": uint32(v)})
					}
				}
			}
		}
	}
	for _, name := range docOps {
		for _, s := range caseVariants(r0, name, 1024) {
			judgeOp(s)
		}
		for _, s := range append(nearMisses(name), unicodeFolds(name)...) {
			judgeOp(s)
			judgeAction(s)
		}
		for _, s := range byteMutants(name) {
			judgeOp(s)
			run.Count("single_byte_mutants_of_documented_names", 1)
		}
		var back seccomp.Operation
		if err := back.Unpack(name); err != nil || string(back) != name {
			run.Violation("operation-print-parse", fmt.Sprintf("Unpack(%q) = %q, %v", name, back, err), map[string]any{"check": "C14"})
		}
		distinct["op:"+name] = true
	}
	for i := 0; i < run.N(2000, 50000); i++ { // PRNG strings
		n := r0.Intn(14)
		b := make([]byte, n)
		for k := range b {
			b[k] = "abcdefghijklmnopqrstuvwxyzABCDEFGHIJKLMNOPQRSTUVWXYZ_ -0123456789"[r0.Intn(65)]
		}
		judgeAction(string(b))
		judgeOp(string(b))
	}

	// (b) policies through the configuration path
	nPol := run.N(3000, 50000)
	dir := os.Getenv("VERIF_BIN")
	vlib.Parallel(nPol, func(i int) {
		r := caseRand(run, 1+i)
		t := ts[i%len(ts)]
		mp := vlib.DefaultMixed()
		mp.MaxGroups, mp.BigNamesChance, mp.LongListChance = 4, 10, 10
		if i%25 == 7 { // large policies through the configuration path too
			mp.MaxGroups, mp.BigNamesChance, mp.LongListChance = 8, 2, 2
		}
		var p *seccomp.Policy
		if i%7 == 0 {
			p = vlib.GenNamesOnly(r, t, 0, vlib.NamedActions, vlib.NamedActions)
		} else {
			p = vlib.GenMixed(r, t, mp)
		}
		unnamed := i%9 == 4 && len(p.Syscalls) > 0
		if unnamed { // a group action that carries return data (the only way to return another errno) or is no documented word
			gi := r.Intn(len(p.Syscalls))
			p.Syscalls[gi].Action = []seccomp.Action{vlib.RetErrno | 13, vlib.RetErrno | 38, vlib.RetTrace | 7, vlib.RetTrap | 1, vlib.RetUserNotif, vlib.RetAllow | 1, seccomp.Action(r.Uint32())}[r.Intn(7)]
		}
		spec := vlib.SpecOf(p, t.Name)
		want := vlib.Compile(spec.Policy(), t)
		if !want.OK() {
			run.Count("base_not_accepted", 1)
			return
		}
		nontrivial := false
		for _, g := range spec.Groups {
			for _, e := range g.With {
				for _, c := range e.Conds {
					if c.Arg != 0 {
						nontrivial = true
						run.Count("conditions_with_argument_ne_0", 1)
					}
					if c.Val >= 1<<63 {
						run.Count("operands_ge_2^63", 1)
					}
				}
			}
			if g.Action == vlib.RetKillThread {
				run.Count("groups_with_kill_thread", 1)
			}
		}
		type wrapper struct {
			Seccomp *seccomp.Policy `yaml:"seccomp" json:"seccomp"`
		}
		renderings := map[string]func() ([]byte, error){
			"hand-written-yaml": func() ([]byte, error) { return []byte(handYAML(r, spec)), nil },
			"yaml.Marshal":      func() ([]byte, error) { return yaml.Marshal(wrapper{spec.Policy()}) },
			"json.Marshal":      func() ([]byte, error) { return json.Marshal(wrapper{spec.Policy()}) },
		}
		for _, rn := range []string{"hand-written-yaml", "yaml.Marshal", "json.Marshal"} {
			if unnamed && rn == "hand-written-yaml" {
				continue // the documented spelling has no word for such an action
			}
			text, err := renderings[rn]()
			replay := map[string]any{"check": "C14", "renderer": rn, "policy": spec, "text": string(text)}
			if len(text) > 6000 {
				replay["text"] = string(text[:6000]) + "..."
			}
			if err != nil {
				run.Violation("render-fails:"+rn, fmt.Sprintf("%s of a valid policy fails: %v", rn, err), replay)
				continue
			}
			var loaded *seccomp.Policy
			if i%50 == 0 && dir != "" { // through a file, exactly like cmd/sandbox
				path := filepath.Join(dir, fmt.Sprintf("c14-%d-%s.yml", i, rn))
				os.WriteFile(path, text, 0o644)
				conf, err2 := ucfgyaml.NewConfigWithFile(path)
				os.Remove(path)
				if err2 == nil {
					var c loadedConfig
					err2 = conf.Unpack(&c)
					loaded = &c.Seccomp
				}
				err = err2
			} else {
				loaded, err = loadThroughConfigPath(text)
			}
			run.Count("round_trips:"+rn, 1)
			if unnamed {
				run.Count("round_trips_with_unnamed_action", 1)
				if err != nil {
					run.Count("unnamed_action_refused_by_the_loader", 1) // refused loudly: fine
					continue
				}
			}
			if err != nil {
				run.Violation("load-fails:"+rn, fmt.Sprintf("the %s rendering of a valid policy is rejected by the configuration path: %v", rn, err), replay)
				continue
			}
			got := vlib.Compile(loaded, t)
			if !got.OK() || progDigest(got.Ins, got.Err) != progDigest(want.Ins, want.Err) {
				// explain: first differing condition
				why := fmt.Sprintf("compiles to a different program (%d vs %d instructions, err=%v)", len(got.Ins), len(want.Ins), got.Err)
				ls := vlib.SpecOf(loaded, t.Name)
				for gi := range spec.Groups {
					if gi < len(ls.Groups) {
						for ei := range spec.Groups[gi].With {
							if ei < len(ls.Groups[gi].With) {
								for ci := range spec.Groups[gi].With[ei].Conds {
									if ci < len(ls.Groups[gi].With[ei].Conds) && spec.Groups[gi].With[ei].Conds[ci] != ls.Groups[gi].With[ei].Conds[ci] {
										why = fmt.Sprintf("condition %+v is read back as %+v", spec.Groups[gi].With[ei].Conds[ci], ls.Groups[gi].With[ei].Conds[ci])
									}
								}
							}
						}
					}
				}
				run.Violation("round-trip-differs:"+rn, fmt.Sprintf("policy rendered by %s and loaded through the configuration path %s", rn, why), replay)
				continue
			}
			if nontrivial {
				run.Count("nontrivial_round_trips", 1)
			}
		}
		mu.Lock()
		distinct[fmt.Sprint("policy:", len(spec.Groups), len(want.Ins))] = true
		mu.Unlock()
		if i == 3 {
			run.Sample(3, map[string]any{"policy": spec.Brief(), "hand_written_yaml_head": strings.Split(handYAML(r, spec), "\n")[:8]})
		}
	})
	run.Sample(3, map[string]any{"strings_tried_for_allow": caseVariants(r0, "allow", 4096)[:6], "near_misses": nearMisses("allow")[:8], "unicode_folds": unicodeFolds("kill_process")})
	run.Assume("letter-case variants are judged three-way: ASCII case variants must be accepted, strings not fold-equal to a documented name must be rejected, strings equal only through non-ASCII case folding may go either way but never to another constant",
		"the configuration path is ucfg/yaml.NewConfig(+WithFile) and Unpack into struct{Seccomp Policy}, the two calls cmd/sandbox makes; the sandbox binary itself is exercised by C15")
	c14WholeFilter(run, ts)
	if run.Violations() == 0 {
		run.Require("whole_filter_configurations", 50)
		run.Require("action_strings_accepted", 100)
		run.Require("action_strings_rejected", 100)
		run.Require("operation_strings_accepted", 100)
		run.Require("round_trips:hand-written-yaml", 100)
		run.Require("round_trips:yaml.Marshal", 100)
		run.Require("round_trips:json.Marshal", 100)
		run.Require("conditions_with_argument_ne_0", 100)
		run.Require("operands_ge_2^63", 10)
		run.Require("groups_with_kill_thread", 10)
	}
	// the same as a linux/386 build: the text forms are produced and read by code whose int and uint are 32 bits wide
	run.RunSecondaryBuild()
	run.Finish(run.Counter("action_strings")+run.Counter("operation_strings")+run.Counter("round_trips:hand-written-yaml")+run.Counter("round_trips:yaml.Marshal")+run.Counter("round_trips:json.Marshal"),
		int64(len(distinct)),
		"parsers: every ASCII case mask of every documented action/operation name (PRNG masks for long ones), near misses, Unicode fold look-alikes, PRNG strings, receivers preset to allow and kill_thread; policies: PRNG valid policies rendered as hand-written YAML in the documented spelling, yaml.Marshal and json.Marshal, loaded through the configuration path and compiled, program compared with the in-memory policy's; distinct = names + (groups, program length) shapes")
}
