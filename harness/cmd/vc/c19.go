package main

import (
	"bytes"
	"encoding/json"
	"fmt"
	"os"
	"os/exec"
	"path/filepath"
	"sort"
	"strings"
	"sync"

	"verif/harness/vlib"
)

func init() { checks["C19"] = c19 }

func goEnv(key string) string {
	out, _ := exec.Command("go", "env", key).Output()
	return strings.TrimSpace(string(out))
}

func c19() {
	run := vlib.NewRun("C19", "exploration")
	o, err := vlib.LoadOracles()
	if err != nil {
		run.Inconclusive(err.Error())
		run.Finish(0, 0, "")
	}
	bin := vlib.BinDir()
	harness := filepath.Join(vlib.VerifDir(), "harness")
	type target struct{ goos, goarch string }
	executed := []target{{"linux", "amd64"}, {"linux", "386"}, {"js", "wasm"}}
	results := map[string]map[string]any{}
	strace := map[string]string{}
	for _, tg := range executed {
		name := tg.goos + "/" + tg.goarch
		outp := filepath.Join(bin, "vconst-"+tg.goos+"-"+tg.goarch)
		cmd := exec.Command("go", "build", "-tags", "verif", "-o", outp, "./cmd/vconst")
		cmd.Dir = harness
		cmd.Env = append(os.Environ(), "GOOS="+tg.goos, "GOARCH="+tg.goarch)
		if b, err := cmd.CombinedOutput(); err != nil {
			run.Inconclusive(fmt.Sprintf("cannot build the constant probe for %s: %v: %s", name, err, b))
			continue
		}
		var runCmd *exec.Cmd
		if tg.goos == "js" {
			wasmExec := filepath.Join(goEnv("GOROOT"), "misc", "wasm", "wasm_exec_node.js")
			if _, err := os.Stat(wasmExec); err != nil {
				wasmExec = filepath.Join(goEnv("GOROOT"), "lib", "wasm", "wasm_exec_node.js")
			}
			// under strace: the stubs must not issue seccomp/prctl
			st := filepath.Join(bin, "vconst-wasm.strace")
			runCmd = exec.Command("strace", "-f", "-o", st, "-e", "trace=seccomp,prctl", "node", wasmExec, outp)
			defer os.Remove(st)
			strace[name] = st
		} else {
			runCmd = exec.Command(outp)
		}
		var so, se bytes.Buffer
		runCmd.Stdout, runCmd.Stderr = &so, &se
		if err := runCmd.Run(); err != nil {
			run.Inconclusive(fmt.Sprintf("the constant probe for %s did not run: %v: %s", name, err, tail(se.String(), 300)))
			continue
		}
		var m map[string]any
		d := json.NewDecoder(&so)
		d.UseNumber()
		if err := d.Decode(&m); err != nil {
			run.Inconclusive(fmt.Sprintf("unreadable probe output for %s: %v", name, err))
			continue
		}
		results[name] = m
		run.Count("targets_executed", 1)
	}
	want := map[string]uint64{
		"ActionKillThread": o.Constants["SECCOMP_RET_KILL_THREAD"], "ActionKillProcess": o.Constants["SECCOMP_RET_KILL_PROCESS"], "ActionTrap": o.Constants["SECCOMP_RET_TRAP"],
		"ActionErrno": o.Constants["SECCOMP_RET_ERRNO"], "ActionTrace": o.Constants["SECCOMP_RET_TRACE"], "ActionLog": o.Constants["SECCOMP_RET_LOG"], "ActionAllow": o.Constants["SECCOMP_RET_ALLOW"],
		"ActionUserNotify": o.Constants["SECCOMP_RET_USER_NOTIF"], "FilterFlagTSync": o.Constants["SECCOMP_FILTER_FLAG_TSYNC"], "FilterFlagLog": o.Constants["SECCOMP_FILTER_FLAG_LOG"],
		"errnoEPERM": o.Constants["EPERM"], "errnoENOSYS": o.Constants["ENOSYS"], "prSetNoNewPrivs": o.Constants["PR_SET_NO_NEW_PRIVS"],
		"seccompSetModeStrict": o.Constants["SECCOMP_SET_MODE_STRICT"], "seccompSetModeFilter": o.Constants["SECCOMP_SET_MODE_FILTER"], "x32SyscallMask": o.Constants["__X32_SYSCALL_BIT"],
	}
	var evals int64
	distinct := map[string]bool{}
	for name, m := range results {
		consts, _ := m["constants"].(map[string]any)
		for k, w := range want {
			evals++
			run.Count("constants_compared", 1)
			distinct[name+"/"+k] = true
			got, ok := consts[k]
			if !ok || jsonU64(got) != w {
				run.Violation("constant:"+k, fmt.Sprintf("%s: %s = %v, the kernel's UAPI value is %d (%#x)", name, k, got, w, w), map[string]any{"check": "C19", "target": name, "constant": k})
			}
		}
		if jsonU64(m["x32_mask_of_arch_package"]) != o.Constants["__X32_SYSCALL_BIT"] {
			run.Violation("constant:arch.x32SyscallMask", fmt.Sprintf("%s: arch.X32.SeccompMask = %v", name, m["x32_mask_of_arch_package"]), map[string]any{"check": "C19", "target": name})
		}
		linux := strings.HasPrefix(name, "linux/")
		sup, _ := m["supported"].(bool)
		if linux && !sup {
			run.Count("supported_false_on_linux_not_judged_here", 1)
		}
		if !linux {
			if sup {
				run.Violation("stub-reports-supported", name+": Supported() is true on a non-Linux target", map[string]any{"check": "C19", "target": name})
			}
			if supAfter, _ := m["supported_after_loads"].(bool); supAfter {
				run.Violation("stub-reports-supported", name+": Supported() is true on a non-Linux target once LoadFilter has been called", map[string]any{"check": "C19", "target": name})
			}
			for _, k := range []string{"setnonewprivs_error", "loadfilter_error"} {
				if fmt.Sprint(m[k]) != "" {
					run.Count("stub_returns_error:"+k, 1) // documented as 'never returns an error'; not part of the property
				}
			}
			if nilProg, _ := m["native_assemble_nil_program"].(bool); !nilProg || fmt.Sprint(m["native_assemble_error"]) == "" {
				run.Violation("no-table-target-compiles", fmt.Sprintf("%s: compiling for the build target (no syscall table) returns %v instructions, error %q", name, m["native_assemble_instructions"], m["native_assemble_error"]), map[string]any{"check": "C19", "target": name})
			} else if !strings.Contains(fmt.Sprint(m["native_assemble_error"]), "unsupported arch") {
				run.Violation("no-table-target-other-error", fmt.Sprintf("%s: compiling for a target without table fails with %q instead of an unsupported-architecture error", name, m["native_assemble_error"]), map[string]any{"check": "C19", "target": name})
			}
			if fmt.Sprint(m["getinfo_default_error"]) == "" {
				run.Violation("no-table-target-getinfo", name+": GetInfo(\"\") succeeds on a target without table", map[string]any{"check": "C19", "target": name})
			}
			// no system calls from the stubs
			if st := strace[name]; st != "" {
				b, _ := os.ReadFile(st)
				n := 0
				for _, l := range strings.Split(string(b), "\n") {
					if strings.Contains(l, "seccomp(") || strings.Contains(l, "prctl(0x26") || strings.Contains(l, "PR_SET_NO_NEW_PRIVS") {
						n++
					}
				}
				run.Count("stub_process_lines_traced", int64(len(strings.Split(string(b), "\n"))))
				if n > 0 {
					run.Violation("stub-makes-syscalls", fmt.Sprintf("%s: the process issued %d seccomp/prctl(NO_NEW_PRIVS) system calls", name, n), map[string]any{"check": "C19", "target": name})
				}
			}
		} else {
			if nilProg, _ := m["native_assemble_nil_program"].(bool); nilProg {
				run.Violation("linux-target-does-not-compile", fmt.Sprintf("%s: compiling for the build target fails: %v", name, m["native_assemble_error"]), map[string]any{"check": "C19", "target": name})
			}
		}
	}
	// same policy + same table => same program on every executed target
	var names []string
	for n := range results {
		names = append(names, n)
	}
	sort.Strings(names)
	if len(names) > 1 {
		ref, _ := results[names[0]]["program_digests"].(map[string]any)
		for _, n := range names[1:] {
			d, _ := results[n]["program_digests"].(map[string]any)
			for tbl, v := range ref {
				evals++
				run.Count("program_digests_compared", 1)
				if fmt.Sprint(d[tbl]) != fmt.Sprint(v) || strings.Contains(fmt.Sprint(v), "error") {
					run.Violation("program-differs-between-targets", fmt.Sprintf("policies compiled for the %s table give %q on %s and %q on %s", tbl, v, names[0], d[tbl], n), map[string]any{"check": "C19", "table": tbl})
				}
			}
		}
	}

	// build-system query for every target of the distribution list: which files define the constants and stubs
	distOut, _ := exec.Command("go", "tool", "dist", "list").Output()
	selection := map[string][]string{}
	var mu sync.Mutex
	var targets []target
	for _, l := range strings.Fields(string(distOut)) {
		p := strings.SplitN(l, "/", 2)
		if len(p) == 2 {
			targets = append(targets, target{p[0], p[1]})
		}
	}
	vlib.Parallel(len(targets), func(i int) {
		tg := targets[i]
		var files []string
		for _, pkg := range []string{".", "./internal/unix"} {
			cmd := exec.Command("go", "list", "-f", "{{join .GoFiles \" \"}}", pkg)
			cmd.Dir = vlib.RepoDir()
			cmd.Env = append(os.Environ(), "GOOS="+tg.goos, "GOARCH="+tg.goarch, "CGO_ENABLED=0", "GOFLAGS=-mod=mod") // no -modfile of the harness here
			out, err := cmd.Output()
			if err != nil {
				mu.Lock()
				selection["(go list fails)"] = append(selection["(go list fails)"], tg.goos+"/"+tg.goarch)
				mu.Unlock()
				return
			}
			for _, f := range strings.Fields(string(out)) {
				if strings.HasPrefix(f, "types_") || strings.HasPrefix(f, "seccomp_") {
					files = append(files, f)
				}
			}
		}
		sort.Strings(files)
		mu.Lock()
		selection[strings.Join(files, "+")] = append(selection[strings.Join(files, "+")], tg.goos+"/"+tg.goarch)
		mu.Unlock()
		run.Count("targets_file_selection_recorded", 1)
	})
	for k := range selection {
		sort.Strings(selection[k])
	}
	run.Set("file_selection_by_target", selection)
	// every selection must be one of the two that were executed
	execSel := map[string]bool{"seccomp_linux.go+types_linux.go": true, "seccomp_unsupported.go+types_other.go": true}
	uncovered := map[string][]string{}
	for sel, tgs := range selection {
		if !execSel[sel] && sel != "(go list fails)" {
			uncovered[sel] = tgs
		}
	}
	// a selection that no executed target covers is executed on this host if it compiles for it (overlay); what cannot be
	// executed at all cannot be observed
	coveredOnHost := c19ForeignFileSetsOnHost(run, harness, bin, selection, uncovered, want)
	for sel, tgs := range uncovered {
		if !coveredOnHost[sel] {
			run.Inconclusive(fmt.Sprintf("targets %v select the files %q, which no executed target covers and which do not build for this host: their constants and stubs cannot be observed here", tgs, sel))
		}
	}
	c19AllExported(run, o)
	c19GoarchOverlay(run, harness, bin)
	// the compiler asserts the constants for targets that cannot be executed here (static, listed separately)
	c19CompileAsserts(run, o)
	run.Set("executed_targets", names)
	run.Sample(3, map[string]any{"target": "js/wasm", "result": results["js/wasm"]})
	run.Sample(3, map[string]any{"target": "linux/386", "constants": results["linux/386"]["constants"]})
	run.Assume("only linux/amd64, linux/386 and js/wasm can be executed here; for all other targets only the selection of constant/stub files is recorded (go list), and every selection must be one that was executed",
		"linux/* targets other than amd64/386 take their values from golang.org/x/sys/unix per-architecture files that are not executed",
		"'stubs perform no system calls' is observed as: the node process running the js/wasm build issues no seccomp/prctl system call under strace")
	if run.Violations() == 0 {
		run.Require("targets_executed", 3)
		run.Require("constants_compared", 48)
		run.Require("program_digests_compared", 8)
		run.Require("targets_file_selection_recorded", 40)
	}
	evals += run.Counter("constants_compared_in_file_sets_executed_on_the_host") + 2*run.Counter("stub_file_sets_traced_between_markers")
	run.Finish(evals, int64(len(distinct)),
		"file sets of other build targets executed on the host through an overlay (constants; stubs between marker system calls, all system calls traced); a probe program built with -tags verif for linux/amd64, linux/386 and js/wasm and executed (natively / under node): 16 constants compared with the kernel UAPI values (linux/seccomp.h, prctl.h, errno.h via gcc), four policies per syscall table compiled on each target and digests compared, Supported/SetNoNewPrivs/LoadFilter/Assemble behaviour of the stubs, strace of the wasm run; go list file selection for all targets of `go tool dist list`; distinct = (target, constant) pairs")
}

// c19CompileAsserts: for targets that cannot run here, let the compiler
// evaluate constant equalities (a type-check, not an execution).
func c19CompileAsserts(run *vlib.Run, o *vlib.Oracles) {
	dir := filepath.Join(vlib.BinDir(), "c19assert")
	os.MkdirAll(dir, 0o755)
	defer os.RemoveAll(dir)
	src := "package main\n\nimport seccomp \"github.com/elastic/go-seccomp-bpf\"\n\nconst (\n"
	for k, v := range map[string]uint64{"ActionKillThread": o.Constants["SECCOMP_RET_KILL_THREAD"], "ActionKillProcess": o.Constants["SECCOMP_RET_KILL_PROCESS"], "ActionTrap": o.Constants["SECCOMP_RET_TRAP"],
		"ActionErrno": o.Constants["SECCOMP_RET_ERRNO"], "ActionTrace": o.Constants["SECCOMP_RET_TRACE"], "ActionLog": o.Constants["SECCOMP_RET_LOG"], "ActionAllow": o.Constants["SECCOMP_RET_ALLOW"],
		"ActionUserNotify": o.Constants["SECCOMP_RET_USER_NOTIF"], "FilterFlagTSync": o.Constants["SECCOMP_FILTER_FLAG_TSYNC"], "FilterFlagLog": o.Constants["SECCOMP_FILTER_FLAG_LOG"]} {
		src += fmt.Sprintf("\t_ = uint64(seccomp.%s) - %d\n\t_ = %d - uint64(seccomp.%s)\n", k, v, v, k)
	}
	// the errno constants (unexported; hook aliases): the kernel's UAPI value of the build target's own architecture -
	// ENOSYS is 38 everywhere except on MIPS (89), EPERM is 1 everywhere
	src += ")\n\nfunc main() {}\n"
	errnoSrc := func(enosys int) string {
		return fmt.Sprintf("package main\n\nimport seccomp \"github.com/elastic/go-seccomp-bpf\"\n\nconst (\n\t_ = uint64(seccomp.VerifErrnoEPERM) - 1\n\t_ = 1 - uint64(seccomp.VerifErrnoEPERM)\n\t_ = uint64(seccomp.VerifErrnoENOSYS) - %d\n\t_ = %d - uint64(seccomp.VerifErrnoENOSYS)\n)\n", enosys, enosys)
	}
	os.WriteFile(filepath.Join(dir, "main.go"), []byte(src), 0o644)
	os.WriteFile(filepath.Join(dir, "errno_mips.go"), []byte("//go:build linux && (mips || mipsle || mips64 || mips64le)\n\n"+errnoSrc(89)), 0o644)
	os.WriteFile(filepath.Join(dir, "errno_other.go"), []byte("//go:build !(linux && (mips || mipsle || mips64 || mips64le))\n\n"+errnoSrc(38)), 0o644)
	os.WriteFile(filepath.Join(dir, "go.mod"), []byte("module c19assert\n\ngo 1.18\n\nrequire github.com/elastic/go-seccomp-bpf v0.0.0\n\nreplace github.com/elastic/go-seccomp-bpf => "+vlib.RepoDir()+"\n"), 0o644)
	copyFile(filepath.Join(dir, "go.sum"), filepath.Join(vlib.RepoDir(), "go.sum"))
	var ok, failed []string
	var mu sync.Mutex
	tgs := []string{"linux/arm64", "linux/arm", "linux/ppc64le", "linux/ppc64", "linux/s390x", "linux/riscv64", "linux/mips", "linux/mipsle", "linux/mips64", "linux/mips64le", "linux/loong64", "android/arm64", "darwin/arm64", "windows/amd64", "freebsd/amd64", "wasip1/wasm"}
	vlib.Parallel(len(tgs), func(i int) {
		tg := tgs[i]
		p := strings.SplitN(tg, "/", 2)
		// a directory of its own per target: the go command rewrites go.mod/go.sum
		sub := filepath.Join(dir, strings.ReplaceAll(tg, "/", "_"))
		os.MkdirAll(sub, 0o755)
		for _, f := range []string{"main.go", "errno_mips.go", "errno_other.go", "go.mod", "go.sum"} {
			copyFile(filepath.Join(sub, f), filepath.Join(dir, f))
		}
		cmd := exec.Command("go", "vet", "-tags", "verif", ".")
		cmd.Dir = sub
		cmd.Env = append(os.Environ(), "GOOS="+p[0], "GOARCH="+p[1], "CGO_ENABLED=0", "GOFLAGS=-mod=mod")
		out, err := cmd.CombinedOutput()
		mu.Lock()
		defer mu.Unlock()
		if err != nil {
			failed = append(failed, tg)
			if strings.Contains(string(out), "overflows") || strings.Contains(string(out), "constant") {
				run.Violation("constant-differs-on-built-target:"+tg, fmt.Sprintf("%s: the compiler rejects the constant equalities: %s", tg, tail(string(out), 400)), map[string]any{"check": "C19", "target": tg})
			} else {
				run.Count("compile_assert_inconclusive", 1)
				run.Set("compile_assert_not_run_output:"+tg, tail(string(out), 300))
			}
		} else {
			ok = append(ok, tg)
			run.Count("built_only_targets_constants_asserted_by_compiler", 1)
		}
	})
	sort.Strings(ok)
	sort.Strings(failed)
	run.Set("built_only_targets_constants_asserted_by_compiler", ok)
	run.Set("built_only_targets_assert_not_run", failed)
}

// c19GoarchOverlay executes the GOARCH-dependent code paths of the library for every GOARCH of the distribution list
// on this host: the probe program is built with a `go build -overlay` in which every `runtime.GOARCH` in the library's
// sources is replaced by the literal name of that architecture (nothing under /repo is changed), and run natively.
// Architectures with syscall tables must compile the native policy; all others must fail with an
// unsupported-architecture error and no program.
func c19GoarchOverlay(run *vlib.Run, harness, bin string) {
	repo := vlib.RepoDir()
	var files []string
	filepath.Walk(repo, func(p string, fi os.FileInfo, err error) error {
		if err != nil || fi.IsDir() {
			if fi != nil && fi.IsDir() && (fi.Name() == ".git" || fi.Name() == "cmd") {
				return filepath.SkipDir
			}
			return nil
		}
		if strings.HasSuffix(p, ".go") && !strings.HasSuffix(p, "_test.go") {
			if b, err := os.ReadFile(p); err == nil && strings.Contains(string(b), "runtime.GOARCH") {
				files = append(files, p)
			}
		}
		return nil
	})
	if len(files) == 0 {
		run.Count("goarch_overlay_no_use_of_runtime_GOARCH_found", 1)
		return
	}
	distOut, _ := exec.Command("go", "tool", "dist", "list").Output()
	seen := map[string]bool{}
	var goarchs []string
	for _, l := range strings.Fields(string(distOut)) {
		if p := strings.SplitN(l, "/", 2); len(p) == 2 && !seen[p[1]] {
			seen[p[1]] = true
			goarchs = append(goarchs, p[1])
		}
	}
	sort.Strings(goarchs)
	withTable := map[string]bool{"386": true, "amd64": true, "arm": true, "arm64": true}
	dir := filepath.Join(bin, "c19overlay")
	os.MkdirAll(dir, 0o755)
	defer os.RemoveAll(dir)
	var mu sync.Mutex
	results := map[string]string{}
	vlib.Parallel(len(goarchs), func(i int) {
		ga := goarchs[i]
		repl := map[string]string{}
		for k, f := range files {
			b, _ := os.ReadFile(f)
			txt := strings.ReplaceAll(string(b), "runtime.GOARCH", fmt.Sprintf("func() string { _ = runtime.GOARCH; return %q }()", ga))
			np := filepath.Join(dir, fmt.Sprintf("%s-%d.go", ga, k))
			os.WriteFile(np, []byte(txt), 0o644)
			repl[f] = np
		}
		ov, _ := json.Marshal(map[string]any{"Replace": repl})
		ovPath := filepath.Join(dir, ga+"-overlay.json")
		os.WriteFile(ovPath, ov, 0o644)
		outp := filepath.Join(dir, "vconst-as-"+ga)
		cmd := exec.Command("go", "build", "-tags", "verif", "-overlay", ovPath, "-o", outp, "./cmd/vconst")
		cmd.Dir = harness
		if b, err := cmd.CombinedOutput(); err != nil {
			run.Inconclusive(fmt.Sprintf("GOARCH overlay build for %s failed: %v: %s", ga, err, tail(string(b), 300)))
			return
		}
		out, err := exec.Command(outp).Output()
		if err != nil {
			run.Inconclusive(fmt.Sprintf("GOARCH overlay run for %s failed: %v", ga, err))
			return
		}
		var m map[string]any
		d := json.NewDecoder(bytes.NewReader(out))
		d.UseNumber()
		if d.Decode(&m) != nil {
			run.Inconclusive("unreadable overlay probe output for " + ga)
			return
		}
		run.Count("goarch_values_executed_through_overlay", 1)
		nilProg, _ := m["native_assemble_nil_program"].(bool)
		aerr := fmt.Sprint(m["native_assemble_error"])
		eerr := fmt.Sprint(m["native_empty_policy_error"])
		eins := jsonU64(m["native_empty_policy_instructions"])
		gerr := fmt.Sprint(m["getinfo_default_error"])
		mu.Lock()
		results[ga] = fmt.Sprintf("native policy: nil_program=%v err=%q; empty policy: %d instructions err=%q; GetInfo(\"\") err=%q", nilProg, aerr, eins, eerr, gerr)
		mu.Unlock()
		replay := map[string]any{"check": "C19", "goarch_literal": ga, "result": m}
		if withTable[ga] {
			if nilProg || aerr != "" || gerr != "" {
				run.Violation("overlay:"+ga+":table-arch-does-not-compile", fmt.Sprintf("with runtime.GOARCH=%q the native policy does not compile: %s", ga, aerr+gerr), replay)
			}
			return
		}
		if !nilProg || aerr == "" || gerr == "" || eins != 0 || eerr == "" {
			run.Violation("overlay:no-table-arch-compiles", fmt.Sprintf("with runtime.GOARCH=%q (no syscall table): %s", ga, results[ga]), replay)
			return
		}
		for _, e := range []string{aerr, eerr, gerr} {
			if !strings.Contains(e, "unsupported arch") {
				run.Violation("overlay:no-table-arch-other-error", fmt.Sprintf("with runtime.GOARCH=%q (no syscall table) the failure is not an unsupported-architecture error: %q", ga, e), replay)
				return
			}
		}
	})
	run.Set("goarch_overlay_results", results)
	run.Set("goarch_overlay_files_rewritten", files)
}
