package main

import (
	"fmt"
	"sort"
	"strings"
	"time"

	"github.com/anishathalye/porcupine"

	"verif/harness/vlib"
)

type concIn struct {
	kind   string // "load" or "read"
	thread int
	id     int
	tsync  bool
}

func decodeStacks(s string) [][]int {
	parts := strings.Split(s, "|")
	out := make([][]int, len(parts))
	for i, p := range parts {
		if p == "" {
			continue
		}
		for _, f := range strings.Split(p, ".") {
			var v int
			fmt.Sscan(f, &v)
			out[i] = append(out[i], v)
		}
	}
	return out
}

func encodeStacks(st [][]int) string {
	parts := make([]string, len(st))
	for i, s := range st {
		fs := make([]string, len(s))
		for k, v := range s {
			fs[k] = fmt.Sprint(v)
		}
		parts[i] = strings.Join(fs, ".")
	}
	return strings.Join(parts, "|")
}

func isPrefix(a, b []int) bool {
	if len(a) > len(b) {
		return false
	}
	for i := range a {
		if a[i] != b[i] {
			return false
		}
	}
	return true
}

// concModel is the sequential specification: every thread has a stack of
// filters; a plain load pushes onto the caller's stack and succeeds; a
// thread-sync load succeeds iff every other thread's stack is a prefix of the
// caller's (its filter is an ancestor), and then gives every thread the
// caller's stack plus the new filter; otherwise it fails and changes nothing.
func concModel(threads int) porcupine.Model {
	return porcupine.Model{
		Init: func() interface{} { return encodeStacks(make([][]int, threads)) },
		Step: func(state, input, output interface{}) (bool, interface{}) {
			st := decodeStacks(state.(string))
			in := input.(concIn)
			switch in.kind {
			case "read":
				want := append([]int{}, st[in.thread]...)
				sort.Ints(want)
				return fmt.Sprint(want) == output.(string), state
			default:
				ok := output.(bool)
				if !in.tsync {
					if !ok {
						return false, state
					}
					st[in.thread] = append(append([]int{}, st[in.thread]...), in.id)
					return true, encodeStacks(st)
				}
				can := true
				for t := range st {
					if t != in.thread && !isPrefix(st[t], st[in.thread]) {
						can = false
					}
				}
				if can != ok {
					return false, state
				}
				if !can {
					return true, state
				}
				ns := append(append([]int{}, st[in.thread]...), in.id)
				for t := range st {
					st[t] = ns
				}
				return true, encodeStacks(st)
			}
		},
		DescribeOperation: func(input, output interface{}) string {
			in := input.(concIn)
			if in.kind == "read" {
				return fmt.Sprintf("thread %d holds filters %v", in.thread, output)
			}
			return fmt.Sprintf("thread %d LoadFilter(id %d, tsync=%v) -> nil=%v", in.thread, in.id, in.tsync, output)
		},
	}
}

// c09Concurrent: concurrent load calls checked for linearizability against the model.
func c09Concurrent(run *vlib.Run, pols map[string]vlib.PolicySpec, probeNrs []uint64) {
	bin, err := vlib.BuildHarnessCmd("vchild", "")
	if err != nil {
		run.Inconclusive("cannot build vchild: " + err.Error())
		return
	}
	n := run.N(150, 4000)
	vlib.Parallel(n, func(i int) {
		r := caseRand(run, 4000000+i)
		threads := 2 + r.Intn(3)
		cc := &vlib.ConcCase{Policies: map[string]vlib.PolicySpec{}, Probes: probeNrs}
		id := 0
		for t := 0; t < threads; t++ {
			var plan []vlib.ConcLoad
			for k := 0; k < 1+r.Intn(2) && id < len(probeNrs); k++ {
				fl := uint32(0)
				switch r.Intn(5) {
				case 0, 1:
					fl = flagTSync
				case 2:
					fl = flagTSync | flagLog
				case 3:
					fl = flagLog
				}
				plan = append(plan, vlib.ConcLoad{ID: id, Flags: fl, NNP: r.Intn(2) == 0})
				cc.Policies[fmt.Sprintf("valid%d", id)] = pols[fmt.Sprintf("valid%d", id)]
				id++
			}
			cc.Plans = append(cc.Plans, plan)
			cc.Jitter = append(cc.Jitter, []int{0, 0, 100, 2000, 20000}[r.Intn(5)])
		}
		if i%3 == 1 {
			// few Ps and a pause inside every load, between prctl and the seccomp call: other loads run in that window
			cc.GoMaxProcs = []int{1, 2, 1, 4}[(i/3)%4]
			cc.HookSleepMicros = []int{50, 300, 2000}[(i/12)%3]
			run.Count("concurrent_histories_with_a_pause_inside_every_load", 1)
		}
		res, err := vlib.RunChild(bin, "conc", &vlib.ChildCase{Conc: cc}, false, 60*time.Second)
		if err != nil || res.TimedOut || res.Line("done") == nil {
			run.SoftInconclusive(fmt.Sprintf("concurrent-load child did not finish: %v %s", err, tail(res.Stderr, 200)))
			return
		}
		l := res.Line("conc")
		recs, _ := l["records"].([]any)
		final, _ := l["final"].(map[string]any)
		end := int64(jsonU64(l["end"]))
		var ops []porcupine.Operation
		overlaps := 0
		type iv struct{ c, r int64 }
		var ivs []iv
		for _, x := range recs {
			m, _ := x.(map[string]any)
			ok, _ := m["nil"].(bool)
			call, ret := int64(jsonU64(m["call"])), int64(jsonU64(m["return"]))
			ops = append(ops, porcupine.Operation{ClientId: int(jsonU64(m["thread"])), Input: concIn{kind: "load", thread: int(jsonU64(m["thread"])), id: int(jsonU64(m["id"])), tsync: jsonU64(m["flags"])&1 != 0},
				Call: call, Output: ok, Return: ret})
			for _, o := range ivs {
				if call < o.r && o.c < ret {
					overlaps++
				}
			}
			ivs = append(ivs, iv{call, ret})
		}
		for t := 0; t < threads; t++ {
			fm, _ := final[fmt.Sprint(t)].(map[string]any)
			den, _ := fm["denied"].([]any)
			var ids []int
			for _, d := range den {
				ids = append(ids, int(jsonU64(d)))
			}
			sort.Ints(ids)
			ops = append(ops, porcupine.Operation{ClientId: t, Input: concIn{kind: "read", thread: t}, Call: end + int64(t)*10 + 1, Output: fmt.Sprint(ids), Return: end + int64(t)*10 + 5})
			// the kernel's own count must agree with the behaviour
			st, _ := fm["status"].(map[string]any)
			if st != nil && fmt.Sprint(st["Seccomp_filters"]) != fmt.Sprint(len(ids)) {
				run.Violation("concurrent-loads-filter-count", fmt.Sprintf("after concurrent loads thread %d denies the probes of %d filters but the kernel counts %v", t, len(ids), st["Seccomp_filters"]), map[string]any{"check": "C09", "case": &vlib.ChildCase{Conc: cc}, "records": recs, "final": final})
				return
			}
		}
		result, info := porcupine.CheckOperationsVerbose(concModel(threads), ops, 20*time.Second)
		_ = info
		run.Count("concurrent_histories", 1)
		run.Count("concurrent_load_calls", int64(len(recs)))
		run.Count("overlapping_call_pairs", int64(overlaps))
		switch result {
		case porcupine.Illegal:
			var desc []string
			m := concModel(threads)
			for _, o := range ops {
				desc = append(desc, fmt.Sprintf("[%d..%d] %s", o.Call, o.Return, m.DescribeOperation(o.Input, o.Output)))
			}
			run.Violation("concurrent-history-not-linearizable", fmt.Sprintf("concurrent LoadFilter calls on %d threads: no sequential order of the calls explains the results and the final per-thread filters: %s", threads, strings.Join(desc, "; ")),
				map[string]any{"check": "C09", "case": &vlib.ChildCase{Conc: cc}, "records": recs, "final": final})
		case porcupine.Unknown:
			run.Count("linearizability_checker_timeouts", 1)
			run.SoftInconclusive("linearizability checker timed out")
		}
		if i == 0 {
			run.Sample(4, map[string]any{"concurrent_history": recs, "final": final})
		}
	})
}
