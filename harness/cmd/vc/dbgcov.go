package main

import (
	"fmt"
	"time"

	"verif/harness/vlib"
)

func init() { checks["dbgcov"] = dbgcov }

func dbgcov() {
	run := vlib.NewRun("C03", "other")
	_, ts := mustTargets(run)
	agg := map[string]int{}
	for i := 28; i < 28+200; i++ {
		r := caseRand(run, i)
		t := ts[i%len(ts)]
		mp := vlib.DefaultMixed()
		if i%5 == 0 {
			mp.LongListChance, mp.BigNamesChance = 2, 3
		}
		p := vlib.GenMixed(r, t, mp)
		spec := vlib.SpecOf(p, t.Name)
		c := vlib.Compile(p, t)
		if !c.OK() {
			continue
		}
		ref := vlib.NewRef(spec.Policy(), t)
		nrs := vlib.NrClasses(c, ref)
		evs := c03EventsRef(r, p, t, nrs, ref)
		cov := vlib.NewCov(len(c.Raw))
		for _, e := range evs {
			w := e.Words(false)
			c.RunBoth(&w, cov, false)
		}
		// static reachability
		reach := make([]bool, len(c.Raw))
		reach[0] = true
		for pc, in := range c.Raw {
			if !reach[pc] {
				continue
			}
			switch in.Op {
			case 0x15, 0x25, 0x35, 0x45:
				reach[pc+1+int(in.Jt)] = true
				reach[pc+1+int(in.Jf)] = true
			case 0x05:
				reach[pc+1+int(in.K)] = true
			case 0x06:
			default:
				reach[pc+1] = true
			}
		}
		for pc, in := range c.Raw {
			kind := fmt.Sprintf("op%#x", in.Op)
			if !reach[pc] {
				agg["dead:"+kind]++
				continue
			}
			switch in.Op {
			case 0x15, 0x25, 0x35, 0x45:
				if cov.Edge[pc]&1 == 0 {
					agg["uncovered-true:"+kind]++
				} else {
					agg["covered"]++
				}
				if cov.Edge[pc]&2 == 0 {
					agg["uncovered-false:"+kind]++
				} else {
					agg["covered"]++
				}
			default:
				if cov.Edge[pc]&1 == 0 {
					agg["uncovered:"+kind]++
				} else {
					agg["covered"]++
				}
			}
		}
	}
	fmt.Println(agg)
}

func init() { checks["dbgsolve"] = dbgsolve }

func dbgsolve() {
	run := vlib.NewRun("C03", "other")
	_, ts := mustTargets(run)
	okS, failS, okF, failF := 0, 0, 0, 0
	byLen := map[int][2]int{}
	for i := 28; i < 28+400; i++ {
		r := caseRand(run, i)
		t := ts[i%len(ts)]
		p := vlib.GenMixed(r, t, vlib.DefaultMixed())
		pool := vlib.AdversarialPool(p, t)
		for _, g := range p.Syscalls {
			for _, nc := range g.NamesWithCondtions {
				_, ok := vlib.Satisfy(r, nc.Conditions, vlib.FillArgs(r, pool))
				x := byLen[len(nc.Conditions)]
				if ok {
					okS++
					x[0]++
				} else {
					failS++
					x[1]++
				}
				byLen[len(nc.Conditions)] = x
				for k := range nc.Conditions {
					if _, ok := vlib.FailExactly(r, nc.Conditions, k, vlib.FillArgs(r, pool)); ok {
						okF++
					} else {
						failF++
					}
				}
			}
		}
	}
	fmt.Println("satisfy ok/fail", okS, failS, "failexactly ok/fail", okF, failF, byLen)
}

func init() { checks["dbglists"] = dbglists }

func dbglists() {
	run := vlib.NewRun("C03", "other")
	_, ts := mustTargets(run)
	tot, decided, satFail, shadowUncond, budgetCut := 0, 0, 0, 0, 0
	for i := 28; i < 28+200; i++ {
		r := caseRand(run, i)
		t := ts[i%len(ts)]
		mp := vlib.DefaultMixed()
		if i%5 == 0 {
			mp.LongListChance, mp.BigNamesChance = 2, 3
		}
		p := vlib.GenMixed(r, t, mp)
		spec := vlib.SpecOf(p, t.Name)
		c := vlib.Compile(p, t)
		if !c.OK() {
			continue
		}
		ref := vlib.NewRef(spec.Policy(), t)
		nrs := vlib.NrClasses(c, ref)
		evs := c03EventsRef(r, p, t, nrs, ref)
		hit := map[[2]int]bool{}
		for _, e := range evs {
			_, why := ref.Decide(e)
			if why.Kind == vlib.WhyList {
				hit[[2]int{why.Group, why.List}] = true
			}
		}
		uncondSeen := map[string]bool{}
		for gi, g := range p.Syscalls {
			seen := map[string]int{}
			for _, nc := range g.NamesWithCondtions {
				li := seen[nc.Name]
				seen[nc.Name]++
				tot++
				if hit[[2]int{gi, li}] {
					decided++
					continue
				}
				if uncondSeen[nc.Name] {
					shadowUncond++
					continue
				}
				if _, ok := vlib.Satisfy(r, nc.Conditions, [6]uint64{}); !ok {
					satFail++
					continue
				}
				budgetCut++
				if a, ok := vlib.Satisfy(r, nc.Conditions, [6]uint64{}); ok && budgetCut < 12 {
					_, why := ref.Decide(vlib.Event{NR: t.Num[nc.Name], Arch: t.ID, Args: a})
					fmt.Printf("case %d group %d list %d of %s (%d conds, %d entries in group, evs=%d): satisfying event decided by kind=%d group=%d list=%d\n", i, gi, li, nc.Name, len(nc.Conditions), len(g.NamesWithCondtions), len(evs), why.Kind, why.Group, why.List)
				}
			}
			for _, n := range g.Names {
				uncondSeen[n] = true
			}
		}
	}
	fmt.Println("lists", tot, "decided-by-some-event", decided, "shadowed-by-earlier-unconditional", shadowUncond, "unsatisfiable", satFail, "other(budget/shadowed by list)", budgetCut)
}

func init() { checks["dbgexact"] = dbgexact }

func dbgexact() {
	run := vlib.NewRun("C09", "other")
	_, ts := mustTargets(run)
	t := targetByName(ts, "x86_64")
	for _, n := range []int{4096, 4097, 65535, 65536, 65537, 131072} {
		t0 := time.Now()
		p, l := exactSizePolicy(t, n)
		fmt.Println(n, l, len(p.Syscalls), time.Since(t0))
	}
}
