package main

import (
	"context"
	"fmt"
	"math/rand"
	"os"
	"os/exec"
	"path/filepath"
	"regexp"
	"sort"
	"strings"
	"sync"
	"time"

	seccomp "github.com/elastic/go-seccomp-bpf"

	"verif/harness/vlib"
)

func init() { checks["C18"] = c18 }

// listingForNumbers renders a listing whose sites are exactly the given
// numbers (with repetitions), spread over functions and site kinds.
func listingForNumbers(r *rand.Rand, nums []int, i386 bool, table map[int]string) string {
	var funcs []function
	f := function{Name: "main.f0(SB)"}
	for i, n := range nums {
		if i > 0 && r.Intn(4) == 0 {
			funcs = append(funcs, f)
			f = function{Name: fmt.Sprintf("main.f%d(SB)", len(funcs))}
		}
		for k := 0; k < r.Intn(3); k++ {
			f.Items = append(f.Items, fillers[r.Intn(len(fillers))])
		}
		s := site{Num: n, Gap: r.Intn(3), Kind: "raw"}
		if r.Intn(25) == 0 { // the number is loaded far ahead of the trap
			s.Gap = []int{64, 126, 127, 128, 129, 256, 1000, 4096, 5000}[r.Intn(9)]
		}
		if r.Intn(3) == 0 {
			s.Kind, s.Wrapper = "call", wrappers[r.Intn(len(wrappers))]
		}
		f.Items = append(f.Items, s)
	}
	funcs = append(funcs, f)
	text, _ := renderListing(funcs, i386, table, r)
	return text
}

var reCodeName = regexp.MustCompile(`(?m)^\s*"([^"]*)",\s*(//.*)?$`)

func c18() {
	run := vlib.NewRun("C18", "exploration")
	o, ts := mustTargets(run)
	prof, err := vlib.BuildRepoCmd("./cmd/seccomp-profiler", "seccomp-profiler")
	if err != nil {
		run.Inconclusive("cannot build seccomp-profiler: " + err.Error())
		run.Finish(0, 0, "")
	}
	elf := map[string]string{}
	for _, a := range []string{"", "386"} {
		b, err := vlib.BuildHarnessCmd("vchild", a)
		if err != nil {
			run.Inconclusive(err.Error())
			run.Finish(0, 0, "")
		}
		elf[a] = b
	}
	// a dynamically linked Go binary (cgo): the profiler warns about it; the profile is what it is
	{
		dir := filepath.Join(vlib.BinDir(), "c18dyn")
		os.MkdirAll(dir, 0o755)
		os.WriteFile(filepath.Join(dir, "main.go"), []byte("package main\n\n// #include <stdlib.h>\nimport \"C\"\n\nfunc main() { C.abs(1) }\n"), 0o644)
		os.WriteFile(filepath.Join(dir, "go.mod"), []byte("module c18dyn\n\ngo 1.18\n"), 0o644)
		cmd := exec.Command("go", "build", "-o", filepath.Join(dir, "dyn"), ".")
		cmd.Dir = dir
		cmd.Env = append(os.Environ(), "CGO_ENABLED=1", "GOFLAGS=-mod=mod")
		if out, err := cmd.CombinedOutput(); err == nil {
			elf["dyn"] = filepath.Join(dir, "dyn")
		} else {
			run.Count("dynamically_linked_input_not_built", 1)
			run.Set("dynamically_linked_input_build_output", tail(string(out), 200))
		}
	}
	type archCtx struct {
		goarch string // "" amd64, "386"
		name   string
		t      *vlib.Target
		table  map[int]string // oracle nr -> name
		names  []string       // oracle names that the package also knows
		other  []string       // names valid only for the other architecture
	}
	mk := func(goarch, name, other string) *archCtx {
		c := &archCtx{goarch: goarch, name: name, t: targetByName(ts, name), table: map[int]string{}}
		for n, nr := range o.Tables[name]["uapi"] {
			if _, ok := c.t.Num[n]; ok {
				c.table[nr] = n
				c.names = append(c.names, n)
			}
		}
		sort.Strings(c.names)
		ot := targetByName(ts, other)
		for _, n := range ot.Names {
			if _, ok := c.t.Num[n]; !ok {
				c.other = append(c.other, n)
			}
		}
		return c
	}
	ctxs := []*archCtx{mk("", "x86_64", "i386"), mk("386", "i386", "x86_64")}

	n := run.N(210, 4000)
	var mu sync.Mutex
	distinct := map[string]bool{}
	sizes := map[string]int64{}
	vlib.Parallel(n, func(i int) {
		r := caseRand(run, i)
		cx := ctxs[i%2]
		var nums []int
		for nr := range cx.table {
			nums = append(nums, nr)
		}
		sort.Ints(nums)
		// discovered multiset
		var found []int
		shape := []string{"none", "one", "many", "duplicates", "whole-table", "with-unknown-numbers"}[i%6]
		switch shape {
		case "one":
			found = []int{nums[r.Intn(len(nums))]}
		case "many":
			for k := 0; k < 5+r.Intn(60); k++ {
				found = append(found, nums[r.Intn(len(nums))])
			}
		case "duplicates":
			base := []int{nums[r.Intn(len(nums))], nums[r.Intn(len(nums))], nums[r.Intn(len(nums))]}
			for k := 0; k < 20; k++ {
				found = append(found, base[r.Intn(3)])
			}
		case "whole-table":
			found = append(found, nums...)
			r.Shuffle(len(found), func(a, b int) { found[a], found[b] = found[b], found[a] })
		case "with-unknown-numbers":
			for k := 0; k < 20; k++ {
				if r.Intn(2) == 0 {
					found = append(found, 100000+r.Intn(1000))
				} else {
					found = append(found, nums[r.Intn(len(nums))])
				}
			}
		}
		foundNames := map[string]bool{}
		for _, nr := range found {
			if nm, ok := cx.table[nr]; ok {
				foundNames[nm] = true
			}
		}
		// disjoint blacklist / allow sets
		var bl, al []string
		blSet, alSet := map[string]bool{}, map[string]bool{}
		pickName := func() string { return cx.names[r.Intn(len(cx.names))] }
		if r.Intn(4) != 0 {
			var fl []string
			for nm := range foundNames {
				fl = append(fl, nm)
			}
			sort.Strings(fl)
			for k := 0; k < r.Intn(6); k++ {
				nm := pickName()
				if len(fl) > 0 && r.Intn(2) == 0 {
					nm = fl[r.Intn(len(fl))] // blacklist something that was found
				}
				if !blSet[nm] {
					blSet[nm] = true
					bl = append(bl, nm)
				}
			}
			if r.Intn(2) == 0 {
				bl = append(bl, "no_such_syscall_b")
			}
		}
		if r.Intn(4) != 0 {
			for k := 0; k < r.Intn(8); k++ {
				nm := pickName()
				if !blSet[nm] && !alSet[nm] {
					alSet[nm] = true
					al = append(al, nm)
				}
			}
			if r.Intn(2) == 0 {
				al = append(al, "no_such_syscall_a", "READ")
			}
			if r.Intn(2) == 0 && len(cx.other) > 0 {
				al = append(al, cx.other[r.Intn(len(cx.other))]) // exists only for the other architecture
			}
			if r.Intn(3) == 0 && len(al) > 0 {
				al = append(al, al[0]) // repeated
			}
		}
		want := map[string]bool{}
		for nm := range foundNames {
			if !blSet[nm] {
				want[nm] = true
			}
		}
		for nm := range alSet {
			want[nm] = true
		}
		var wantList []string
		for nm := range want {
			wantList = append(wantList, nm)
		}
		sort.Strings(wantList)

		th, err := vlib.NewToolHome()
		if err != nil {
			run.Inconclusive(err.Error())
			return
		}
		defer th.Remove()
		listing := filepath.Join(th.Dir, "listing.txt")
		os.WriteFile(listing, []byte(listingForNumbers(r, found, cx.goarch == "386", cx.table)), 0o644)
		// unusual but legal file names of the binary (spaces, non-ASCII, leading dash, shell characters)
		target := filepath.Join(th.Dir, []string{"target", "my target", "ziél-バイナリ", "-dash", "a;b&c$(x)", "t\tab", "UPPER.exe", "x.y.z-0123456789"}[i%8])
		input := elf[cx.goarch]
		if d, ok := elf["dyn"]; ok && cx.goarch == "" && i%10 == 6 {
			input = d
			run.Count("runs_on_a_dynamically_linked_binary", 1)
		}
		copyFile(target, input)
		// flags
		format := []string{"config", "config", "code"}[i%3]
		argv := []string{prof, "-format", format}
		join := func(list []string) []string {
			if len(list) == 0 {
				return nil
			}
			switch r.Intn(6) {
			case 0:
				return []string{strings.Join(list, ",")}
			case 1:
				return []string{strings.Join(list, "; ")}
			case 2:
				return []string{strings.Join(list, " ")}
			case 3, 4:
				// the other separators the flag accepts (any Unicode white space, comma, semicolon), repeated, mixed, leading and trailing
				seps := []string{"\t", "\n", "\r\n", "\v", "\f", "\u00a0", "\u0085", "\u2003", "\u3000", "\u2028", ",,", " , ", ";;", ",;", " \t "}
				s := []string{"", " ", ",", "\u00a0"}[r.Intn(4)]
				for k, nm := range list {
					if k > 0 {
						s += seps[r.Intn(len(seps))]
					}
					s += nm
				}
				run.Count("flag_values_with_unusual_separators", 1)
				return []string{s + []string{"", " ", ";", "\u2003\n"}[r.Intn(4)]}
			}
			return list // one flag per name
		}
		for _, v := range join(bl) {
			argv = append(argv, "-b", v)
		}
		for _, v := range join(al) {
			argv = append(argv, "-allow", v)
		}
		debug := r.Intn(3) == 0 // -d: more text for a reader, the same profile (in either format)
		if debug {
			argv = append(argv, "-d")
		}
		outFile := ""
		if r.Intn(2) == 0 {
			outFile = filepath.Join(th.Dir, "out", "profile_{{.GOARCH}}.txt")
			argv = append(argv, "-out", outFile)
			if r.Intn(2) == 0 {
				// the output path already holds something longer (an earlier, larger profile): it must be replaced, not patched
				ga := cx.goarch
				if ga == "" {
					ga = "amd64"
				}
				os.MkdirAll(filepath.Join(th.Dir, "out"), 0o755)
				old := "seccomp:\n  default_action: errno\n  syscalls:\n  - names:\n" + strings.Repeat("    - stale_entry_from_an_earlier_profile\n", 3000) + "    action: allow\n"
				os.WriteFile(strings.ReplaceAll(outFile, "{{.GOARCH}}", ga), []byte(old), 0o644)
				run.Count("runs_over_existing_longer_output_file", 1)
			}
		}
		if format == "code" && r.Intn(2) == 0 {
			argv = append(argv, "-pkg", "profile")
		}
		argv = append(argv, target)
		earlier := ""
		if i%4 == 1 {
			// a history: the same binary has been profiled before, in the same cache directory, with other lists (some of
			// the discovered syscalls blacklisted, other names allowed); the judged run is what its own flags say
			var bl0, al0 []string
			for k, nr := range found {
				if nm, ok := cx.table[nr]; ok && k%2 == 0 && len(bl0) < 4 {
					bl0 = append(bl0, nm)
				}
			}
			inFound := map[int]bool{}
			for _, nr := range found {
				inFound[nr] = true
			}
			var nrs []int
			for nr := range cx.table {
				nrs = append(nrs, nr)
			}
			sort.Ints(nrs)
			for _, nr := range nrs {
				if !inFound[nr] && !want[cx.table[nr]] && len(al0) < 3 && nr%7 == i%7 {
					al0 = append(al0, cx.table[nr])
				}
			}
			argv0 := []string{prof, "-format", "config"}
			if len(bl0) > 0 {
				argv0 = append(argv0, "-b", strings.Join(bl0, ","))
			}
			if len(al0) > 0 {
				argv0 = append(argv0, "-allow", strings.Join(al0, ","))
			}
			argv0 = append(argv0, target)
			if res0, err0 := th.Run(vlib.ToolRun{Argv: argv0, FakeMode: "emit", Listing: listing, Env: vlib.HostileEnvs[i%len(vlib.HostileEnvs)]}); err0 == nil && !res0.TimedOut {
				earlier = fmt.Sprintf(" [after an earlier run on the same binary and cache with -b %v -allow %v, exit %d]", bl0, al0, res0.ExitCode)
				run.Count("runs_after_an_earlier_run_with_other_lists", 1)
			}
		}
		res, err := th.Run(vlib.ToolRun{Argv: argv, FakeMode: "emit", Listing: listing, Env: vlib.HostileEnvs[i%len(vlib.HostileEnvs)]})
		desc := fmt.Sprintf("case %d: %s, discovered=%s (%d sites), -b %v, -allow %v, format=%s debug=%v out=%v%s", i, cx.name, shape, len(found), bl, al, format, debug, outFile != "", earlier)
		if err != nil || res.TimedOut {
			run.SoftInconclusive("profiler run failed: " + desc)
			return
		}
		replay := map[string]any{"check": "C18", "desc": desc, "argv": argv[1:], "discovered_numbers": found, "expected_names": wantList, "stderr_tail": tail(res.Stderr, 500)}
		if res.ExitCode != 0 {
			run.Violation("profiler-fails", fmt.Sprintf("%s: the profiler exits %d: %s", desc, res.ExitCode, tail(res.Stderr, 300)), replay)
			return
		}
		run.Count("profiler_runs", 1)
		output := res.Stdout
		if outFile != "" {
			goarch := cx.goarch
			if goarch == "" {
				goarch = "amd64"
			}
			b, err := os.ReadFile(strings.ReplaceAll(outFile, "{{.GOARCH}}", goarch))
			if err != nil {
				run.Violation("output-file-missing", fmt.Sprintf("%s: -out file was not written: %v", desc, err), replay)
				return
			}
			output = string(b)
		}
		replay["output_head"] = output[:min(len(output), 1500)]
		var got []string
		if format == "code" {
			for _, m := range reCodeName.FindAllStringSubmatch(output, -1) {
				got = append(got, m[1])
			}
		} else {
			text := output
			if debug {
				if k := strings.Index(text, "\nseccomp:"); k >= 0 {
					text = text[k+1:]
				}
			}
			got = profileNames(text)
		}
		// exactly the expected list: sorted, no duplicates
		if !sort.StringsAreSorted(got) {
			run.Violation("not-sorted", desc+": the emitted names are not sorted", replay)
			return
		}
		for k := 1; k < len(got); k++ {
			if got[k] == got[k-1] {
				run.Violation("duplicate-name", fmt.Sprintf("%s: %q is listed twice", desc, got[k]), replay)
				return
			}
		}
		for _, nm := range got {
			if _, ok := cx.t.Num[nm]; !ok {
				run.Violation("name-not-valid-for-arch", fmt.Sprintf("%s: %q is not a syscall of %s", desc, nm, cx.name), replay)
				return
			}
		}
		if fmt.Sprint(got) != fmt.Sprint(wantList) {
			gs := map[string]bool{}
			for _, nm := range got {
				gs[nm] = true
			}
			diff := ""
			for _, nm := range wantList {
				if !gs[nm] {
					diff += " missing:" + nm
				}
			}
			for _, nm := range got {
				if !want[nm] {
					diff += " extra:" + nm
				}
			}
			sig := "allow-list-differs"
			if strings.Contains(diff, "extra") && !strings.Contains(diff, "missing") {
				sig = "allow-list-has-extra-names"
			} else if strings.Contains(diff, "missing") && !strings.Contains(diff, "extra") {
				sig = "allow-list-misses-names"
			}
			run.Violation(sig, fmt.Sprintf("%s: emitted %d names, expected %d:%s", desc, len(got), len(wantList), diff[:min(len(diff), 300)]), replay)
			return
		}
		run.Count("profiles_equal_to_formula", 1)
		// the YAML profile loads through the configuration path and compiles to "allow exactly those, errno otherwise"
		if format == "config" {
			pol, err := loadThroughConfigPath([]byte(output))
			if err != nil {
				run.Violation("profile-does-not-load", fmt.Sprintf("%s: the emitted YAML is rejected by the configuration path: %v", desc, err), replay)
				return
			}
			c := vlib.Compile(pol, cx.t)
			if !c.OK() {
				run.Violation("profile-does-not-compile", fmt.Sprintf("%s: the loaded profile does not compile: %v %v", desc, c.Err, c.Panic), replay)
				return
			}
			allowNr := map[uint32]bool{}
			for _, nm := range wantList {
				allowNr[cx.t.Num[nm]] = true
			}
			refPol := &seccomp.Policy{DefaultAction: vlib.RetErrno, Syscalls: []seccomp.SyscallGroup{{Names: wantList, Action: vlib.RetAllow}}}
			ref := vlib.NewRef(refPol, cx.t)
			var evals int64
			for _, nr := range vlib.NrClasses(c, ref) {
				if cx.t.X32Guard && nr >= vlib.X32Bit {
					continue
				}
				e := vlib.Event{NR: nr, Arch: cx.t.ID, Args: [6]uint64{uint64(nr), ^uint64(0)}}
				w := e.Words(false)
				tr, err := c.RunBoth(&w, nil, false)
				wantW := uint32(vlib.RetErrno | vlib.EPERM)
				if allowNr[nr] {
					wantW = vlib.RetAllow
				}
				evals++
				if err != nil || tr.Ret != wantW {
					run.Violation("profile-filter-wrong-decision", fmt.Sprintf("%s: the filter compiled from the emitted profile answers %#x for syscall %d, expected %#x", desc, tr.Ret, nr, wantW), replay)
					return
				}
			}
			run.Count("decision_table_entries_checked", evals)
			run.Count("profiles_loaded_back", 1)
		}
		mu.Lock()
		distinct[fmt.Sprint(cx.name, shape, format, len(bl) > 0, len(al) > 0, debug, outFile != "")] = true
		sizes[shape]++
		mu.Unlock()
		if i < 3 {
			run.Sample(3, map[string]any{"desc": desc, "emitted_names": got[:min(len(got), 8)]})
		}
	})

	// thorough: the generated Go code is compiled and run to read the profile back;
	// the YAML is consumed by the real sandbox command with a probing target
	c18Consumers(run, o, ts, prof, elf[""])
	c18ForeignMachines(run, o, ts, prof, elf[""])

	run.Set("runs_by_discovered_shape", sizes)
	run.Assume("the discovered multiset is fixed by the generated listing (site model), the scripted fake `go` stands in for `go tool objdump`",
		"-b and -allow sets are disjoint, as the statement requires; names come from the kernel UAPI tables that the package also lists",
		"flag values are split at Unicode white space, commas and semicolons (any run of them), as the flag's parser on the pinned tree does",
		"foreign-machine inputs are the amd64 Go ELF file with only e_machine changed; EM_386, EM_ARM, EM_X86_64 and EM_AARCH64 are not judged there")
	if run.Violations() == 0 {
		run.Require("elf_machine_types_offered", 250)
		run.Require("flag_values_with_unusual_separators", 10)
	}
	if run.Violations() == 0 {
		run.Require("profiler_runs", int64(n*9/10))
		run.Require("profiles_loaded_back", 20)
		run.Require("decision_table_entries_checked", 1000)
		run.Require("sandbox_consumer_runs", 1)
	}
	run.Finish(run.Counter("profiler_runs"), int64(len(distinct)),
		"the built seccomp-profiler run on amd64 and 386 Go ELF inputs with listings whose sites are a chosen multiset (none, one, many, duplicates, whole table, numbers outside the table), PRNG disjoint -b/-allow sets (three separators, repeated flags, unknown names, names of the other architecture, repeats), -format config/code, -d, -out; emitted list compared with sort(dedup(found)-B+(A in table)); YAML loaded through the configuration path, compiled, complete nr decision table compared with 'allow exactly those, errno otherwise'; distinct = (arch, shape, format, flags) cells")
}

func c18Consumers(run *vlib.Run, o *vlib.Oracles, ts []*vlib.Target, prof, elfAmd64 string) {
	cx := targetByName(ts, "x86_64")
	table := map[int]string{}
	var nums []int
	for n, nr := range o.Tables["x86_64"]["uapi"] {
		if _, ok := cx.Num[n]; ok {
			table[nr] = n
			nums = append(nums, nr)
		}
	}
	sort.Ints(nums)
	sandbox, err := vlib.BuildRepoCmd("./cmd/sandbox", "sandbox")
	if err != nil {
		run.Inconclusive("cannot build sandbox: " + err.Error())
		return
	}
	for rep := 0; rep < run.N(2, 12); rep++ {
		r := caseRand(run, 880000+rep)
		th, err := vlib.NewToolHome()
		if err != nil {
			return
		}
		listing := filepath.Join(th.Dir, "listing.txt")
		os.WriteFile(listing, []byte(listingForNumbers(r, nums, false, table)), 0o644)
		target := filepath.Join(th.Dir, "target")
		copyFile(target, elfAmd64)
		probes := probeNames["amd64"]
		denied := map[string]bool{probes[rep%len(probes)]: true, probes[(rep+3)%len(probes)]: true}
		var bl []string
		for nm := range denied {
			bl = append(bl, nm)
		}
		sort.Strings(bl)
		profile := filepath.Join(th.Dir, "profile.yml")
		res, err := th.Run(vlib.ToolRun{Argv: []string{prof, "-format", "config", "-b", strings.Join(bl, ","), "-allow", "clone3,rseq,newfstatat", "-out", profile, target}, FakeMode: "emit", Listing: listing})
		if err != nil || res.ExitCode != 0 {
			run.Inconclusive("profiler run for the sandbox consumer failed")
			th.Remove()
			return
		}
		// the sandbox command consumes the profile and runs the probing target under it
		cc := &vlib.ChildCase{}
		for _, nm := range probes {
			cc.Probes = append(cc.Probes, vlib.Probe{Kind: "syscall", NR: uint64(cx.Num[nm])})
		}
		casePath := filepath.Join(th.Dir, "case.json")
		writeJSON(casePath, cc)
		// under a wrong profile the target's own runtime may be denied what it needs and never end: watchdog
		ctx, cancel := context.WithTimeout(context.Background(), 60*time.Second)
		cmd := exec.CommandContext(ctx, sandbox, "-policy", profile, elfAmd64, "probe", casePath)
		cmd.WaitDelay = 2 * time.Second
		out, err := cmd.Output()
		timedOut := ctx.Err() == context.DeadlineExceeded
		cancel()
		if timedOut {
			// a wall-clock watchdog is no verdict: what the profile lacks is judged from the emitted list above
			run.Count("sandbox_consumer_watchdog", 1)
			run.SoftInconclusive(fmt.Sprintf("the probing target did not finish within 60 s under the profile emitted by the profiler (-b %v)", bl))
			th.Remove()
			return
		}
		if err != nil {
			run.Violation("sandbox-rejects-profile", fmt.Sprintf("cmd/sandbox fails with a profile emitted by the profiler (-b %v): %v: %s", bl, err, tail(string(out), 300)), map[string]any{"check": "C18", "blacklist": bl})
			th.Remove()
			return
		}
		lines := parseChildLines(string(out))
		for idx, nm := range probes {
			var errno uint64 = 9999
			for _, l := range lines {
				if l["ev"] == "post" && int(jsonU64(l["i"])) == idx {
					errno = jsonU64(l["errno"])
				}
			}
			wantErrno := uint64(0)
			if denied[nm] {
				wantErrno = vlib.EPERM
			}
			run.Count("sandbox_consumer_probes", 1)
			if errno != wantErrno {
				run.Violation("profile-not-enforced-by-sandbox", fmt.Sprintf("profile with -b %v consumed by cmd/sandbox: probe %s returns errno %d, expected %d", bl, nm, errno, wantErrno), map[string]any{"check": "C18", "blacklist": bl, "probe": nm})
			}
		}
		run.Count("sandbox_consumer_runs", 1)
		th.Remove()
	}
	if !run.Thorough() {
		return
	}
	// generated Go code: compile it into a program that prints SeccompProfile
	for rep := 0; rep < 6; rep++ {
		r := caseRand(run, 890000+rep)
		th, err := vlib.NewToolHome()
		if err != nil {
			return
		}
		var found []int
		for k := 0; k < 30; k++ {
			found = append(found, nums[r.Intn(len(nums))])
		}
		listing := filepath.Join(th.Dir, "listing.txt")
		os.WriteFile(listing, []byte(listingForNumbers(r, found, false, table)), 0o644)
		target := filepath.Join(th.Dir, "target")
		copyFile(target, elfAmd64)
		modDir := filepath.Join(th.Dir, "mod")
		os.MkdirAll(modDir, 0o755)
		res, err := th.Run(vlib.ToolRun{Argv: []string{prof, "-format", "code", "-pkg", "main", "-out", filepath.Join(modDir, "profile_linux_{{.GOARCH}}.go"), target}, FakeMode: "emit", Listing: listing})
		if err != nil || res.ExitCode != 0 {
			run.Inconclusive("profiler run for generated code failed")
			th.Remove()
			return
		}
		os.WriteFile(filepath.Join(modDir, "go.mod"), []byte("module genprofile\n\ngo 1.18\n\nrequire github.com/elastic/go-seccomp-bpf v0.0.0\n\nreplace github.com/elastic/go-seccomp-bpf => "+vlib.RepoDir()+"\n"), 0o644)
		copyFile(filepath.Join(modDir, "go.sum"), filepath.Join(vlib.RepoDir(), "go.sum"))
		os.WriteFile(filepath.Join(modDir, "main.go"), []byte("package main\n\nimport \"fmt\"\n\nfunc main() {\n\tfor _, g := range SeccompProfile.Syscalls {\n\t\tfor _, n := range g.Names {\n\t\t\tfmt.Println(n)\n\t\t}\n\t}\n\tfmt.Println(\"default\", uint32(SeccompProfile.DefaultAction), len(SeccompProfile.Syscalls))\n}\n"), 0o644)
		ctx2, cancel2 := context.WithTimeout(context.Background(), 300*time.Second)
		defer cancel2()
		cmd := exec.CommandContext(ctx2, "go", "run", ".")
		cmd.WaitDelay = 2 * time.Second
		cmd.Dir = modDir
		out, err := cmd.CombinedOutput()
		want := map[string]bool{}
		for _, nr := range found {
			want[table[nr]] = true
		}
		var wl []string
		for nm := range want {
			wl = append(wl, nm)
		}
		sort.Strings(wl)
		wantOut := strings.Join(wl, "\n") + fmt.Sprintf("\ndefault %d 1\n", uint32(vlib.RetErrno))
		if err != nil || string(out) != wantOut {
			run.Violation("generated-code-differs", fmt.Sprintf("the generated Go code does not compile to the expected profile: err=%v output=%s", err, tail(string(out), 400)), map[string]any{"check": "C18", "expected": wl})
		}
		run.Count("generated_code_compiled_and_run", 1)
		th.Remove()
	}
}

// c18ForeignMachines: the same Go ELF file with every other machine type in its header. A profile may only hold names
// valid for the binary's architecture, so for a machine whose architecture has no syscall table in the package the
// profiler must fail instead of emitting a profile built from some other table.
func c18ForeignMachines(run *vlib.Run, o *vlib.Oracles, ts []*vlib.Target, prof, elfAmd64 string) {
	cx := targetByName(ts, "x86_64")
	table := map[int]string{}
	var nums []int
	for n, nr := range o.Tables["x86_64"]["uapi"] {
		if _, ok := cx.Num[n]; ok {
			table[nr] = n
			nums = append(nums, nr)
		}
	}
	sort.Ints(nums)
	img, err := os.ReadFile(elfAmd64)
	if err != nil || len(img) < 64 {
		run.Inconclusive("cannot read the ELF input")
		return
	}
	var machines []int
	for m := 0; m <= 300; m++ {
		machines = append(machines, m)
	}
	machines = append(machines, 0x9026, 0xfeb0, 0xfeba, 0x1057, 0x4688, 0x5441, 0x7650, 0x7676, 0x8217, 0x9080, 0xa390, 0xbaab, 0xbeef, 0xffff)
	r0 := caseRand(run, 424242)
	for k := 0; k < run.N(10, 400); k++ {
		machines = append(machines, 301+r0.Intn(65535-301))
	}
	th, err := vlib.NewToolHome()
	if err != nil {
		return
	}
	defer th.Remove()
	listing := filepath.Join(th.Dir, "listing.txt")
	os.WriteFile(listing, []byte(listingForNumbers(r0, nums[:40], false, table)), 0o644)
	var mu sync.Mutex
	refused := 0
	vlib.Parallel(len(machines), func(i int) {
		m := machines[i]
		switch m {
		case 3, 40, 62: // EM_386, EM_ARM, EM_X86_64: architectures with tables that the profiler knows
			return
		case 183: // EM_AARCH64: the package has a table for it; whether the profiler supports it is not part of the property
			run.Count("machine_with_a_table_not_judged", 1)
			return
		}
		b := append([]byte(nil), img...)
		b[18], b[19] = byte(m), byte(m>>8)
		target := filepath.Join(th.Dir, fmt.Sprintf("machine-%d", m))
		if os.WriteFile(target, b, 0o755) != nil {
			return
		}
		defer os.Remove(target)
		res, err := th.Run(vlib.ToolRun{Argv: []string{prof, "-format", "config", target}, FakeMode: "emit", Listing: listing})
		if err != nil || res.TimedOut {
			run.SoftInconclusive("profiler run on a foreign-machine ELF did not finish")
			return
		}
		run.Count("elf_machine_types_offered", 1)
		if res.ExitCode == 0 && !res.Signaled && len(profileNames(res.Stdout)) > 0 {
			run.Violation("profile-for-architecture-without-tables", fmt.Sprintf("a Go ELF binary of machine type %d (no syscall table for its architecture) gets a profile of %d names: %v...", m, len(profileNames(res.Stdout)), profileNames(res.Stdout)[:min(4, len(profileNames(res.Stdout)))]),
				map[string]any{"check": "C18", "elf_machine": m, "stderr_tail": tail(res.Stderr, 400)})
			return
		}
		mu.Lock()
		refused++
		mu.Unlock()
	})
	run.Count("elf_machine_types_refused", int64(refused))
}
