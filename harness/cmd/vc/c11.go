package main

import (
	"fmt"
	"strings"
	"sync"
	"time"

	seccomp "github.com/elastic/go-seccomp-bpf"

	"verif/harness/vlib"
)

func init() { checks["C11"] = c11 }

func c11() {
	run := vlib.NewRun("C11", "exploration")
	_, ts := mustTargets(run)
	t := targetByName(ts, "x86_64")
	spec := vlib.SpecOf(&seccomp.Policy{DefaultAction: vlib.RetAllow, Syscalls: []seccomp.SyscallGroup{{Names: []string{"getppid"}, Action: vlib.RetErrno}}}, "x86_64")
	probe := vlib.Probe{Kind: "syscall", NR: uint64(t.Num["getppid"])}
	var allow []string
	for _, nm := range t.Names {
		if nm != "getppid" {
			allow = append(allow, nm)
		}
	}
	longSpec := vlib.SpecOf(&seccomp.Policy{DefaultAction: vlib.RetErrno, Syscalls: []seccomp.SyscallGroup{{Names: allow, Action: vlib.RetAllow}}}, "x86_64")

	type plan struct {
		mode   string
		unpriv bool
		nnp    bool
		flags  uint32
		strace bool
	}
	var plans []plan
	for rep := 0; rep < run.N(4, 60); rep++ {
		for _, mode := range []string{"plain", "gosched", "migrate", "busy"} {
			for _, unpriv := range []bool{false, true} {
				for _, nnp := range []bool{true, false} {
					for _, fl := range []uint32{0, 1, 2, 3} {
						plans = append(plans, plan{mode, unpriv, nnp, fl, rep%3 != 2})
					}
				}
			}
		}
	}
	bin, err := vlib.BuildHarnessCmd("vchild", "")
	if err != nil {
		run.Inconclusive("cannot build vchild: " + err.Error())
		run.Finish(0, 0, "")
	}
	var mu sync.Mutex
	tidPairs := map[string]int64{}
	distinct := map[string]bool{}
	vlib.Parallel(len(plans), func(i int) {
		pl := plans[i]
		pol := spec
		if i%3 == 2 {
			pol = longSpec
		}
		if i%7 == 5 && (i/7)%3 == 2 {
			pl.flags &^= 1 // a third thread carries a divergent filter there: a thread-sync load would rightly be refused
		}
		cc := &vlib.ChildCase{Policy: pol, Flags: pl.flags, NNP: pl.nnp, Unprivileged: pl.unpriv, Probes: []vlib.Probe{probe}, NNPCase: &vlib.NNPCase{Mode: pl.mode, GoMaxProcs: []int{0, 1, 2, 4}[i%4], CallerLocked: i%5 == 4, PresetOnMain: i%7 == 5, Prior: []string{"", "declined-einval", "declined-divergent"}[(i/7)%3]}}
		if i%7 != 5 {
			cc.NNPCase.Prior = ""
		}
		sameBefore := i%7 != 5 && !pl.unpriv && pl.nnp && !pl.strace && (pl.mode == "plain" || pl.mode == "gosched")
		if sameBefore {
			// a history: the very same filter has been loaded before without asking for no_new_privs (privileged caller); the
			// caller keeps its goroutine on one thread, so the thread that asks is the thread that is looked at afterwards
			cc.NNPCase.Prior = "same-without-nnp"
			cc.NNPCase.CallerLocked = true
			run.Count("children_that_loaded_the_same_filter_before_without_nnp", 1)
		}
		outerEinval := i%7 != 5 && !sameBefore && !pl.unpriv && pl.nnp && !pl.strace && pl.flags&2 != 0 && (pl.mode == "migrate" || pl.mode == "busy" || pl.mode == "gosched")
		if outerEinval {
			// an environment: every thread is under a filter that answers EINVAL to an installation asking for the log flag (a
			// kernel before 4.14 does that). An error is the right answer; a library that tries again (and is then exposed to
			// the schedule once more, at its second install) is judged like any other when it reports success
			cc.NNPCase.Prior = "outer-einval-on-log-flag"
			cc.NNPCase.CallerLocked = false
			run.Count("children_under_a_filter_that_refuses_the_log_flag", 1)
		}
		cc.Env = vlib.RuntimeKnobsGC[(i/3)%len(vlib.RuntimeKnobsGC)]
		if i%6 == 1 && pl.mode != "busy" { // CPU-bound goroutines on few Ps would only starve the collecting goroutine
			cc.GCSpray = 1 + (i/6)%3
			run.Count("children_with_gc_and_allocation_spray_before_the_seccomp_call", 1)
		}
		if pl.strace && pl.nnp && (pl.mode == "busy" || pl.mode == "gosched") && i%2 == 0 && i%7 != 5 {
			// a slow prctl(2): the tracer holds the call back for 20 ms when it returns, so the runtime takes the P away from
			// the thread; whoever continues the goroutine afterwards must be that same thread
			cc.StraceInject = append(cc.StraceInject, "-e", "inject=prctl:delay_exit=20000")
			run.Count("children_with_a_slow_prctl", 1)
		}
		injectedPrctl := ""
		if pl.strace && pl.nnp && !pl.unpriv && pl.mode == "plain" && i%7 != 5 && len(cc.StraceInject) == 0 && pl.flags%3 == 0 {
			// the kernel declines the prctl (the call is not performed): no nil result may follow without the bit
			injectedPrctl = []string{"EINVAL", "EPERM", "ENOSYS", "EACCES", "EAGAIN"}[(i/64)%5]
			cc.StraceInject = append(cc.StraceInject, "-e", "inject=prctl:error="+injectedPrctl)
			run.Count("children_with_an_injected_prctl_failure", 1)
		}
		desc := fmt.Sprintf("case %d: mode=%s unprivileged=%v NoNewPrivs=%v flags=%#x strace=%v", i, pl.mode, pl.unpriv, pl.nnp, pl.flags, pl.strace)
		t0 := time.Now()
		res, err := vlib.RunChild(bin, "nnp", cc, pl.strace, 60*time.Second)
		if d := time.Since(t0); d > 5*time.Second {
			run.Set(fmt.Sprintf("slow_child_case_%d", i), fmt.Sprintf("%.1fs %s prior=%q gomaxprocs=%d locked=%v", d.Seconds(), desc, cc.NNPCase.Prior, cc.NNPCase.GoMaxProcs, cc.NNPCase.CallerLocked))
		}
		if err != nil || res.TimedOut || res.Line("done") == nil {
			run.Count("watchdog_or_crash", 1)
			run.SoftInconclusive(fmt.Sprintf("nnp child did not finish (%s): %v %s", desc, err, tail(res.Stderr, 300)))
			return
		}
		run.Count("children", 1)
		run.Count("mode:"+pl.mode, 1)
		l := res.Line("loaded")
		start := res.Line("start")
		replay := map[string]any{"check": "C11", "desc": desc, "case": cc, "loaded": l}
		if pl.strace {
			var raws []string
			for _, sc := range res.Strace {
				raws = append(raws, sc.Raw)
			}
			replay["strace"] = raws
		}
		if si := res.Line("second_install"); si != nil {
			run.Count("second_install_attempts_exposed_to_a_forced_migration", 1)
			if mg, _ := si["migrated"].(bool); mg {
				run.Count("second_install_attempts_that_ran_on_another_thread", 1)
			}
		}
		ok, _ := l["ok"].(bool)
		errText := fmt.Sprint(l["err"])
		migrated, _ := l["migrated"].(bool)
		if injectedPrctl != "" {
			if !ok {
				run.Count("injected_prctl_failures_surfaced_as_errors", 1)
				return // the right answer; nothing was requested of the kernel
			}
			// nil although the prctl was declined: the state-based oracle below decides (the bit cannot be there)
			desc += " prctl answered " + injectedPrctl + " by the injector"
		}
		if pl.mode == "migrate" && i%5 != 4 {
			if jsonU64(l["hook_calls"]) == 0 {
				run.Inconclusive("hook H3 was never reached: " + desc)
				return
			}
			if migrated {
				run.Count("migrations_achieved", 1)
			} else {
				run.Count("migrations_refused_goroutine_is_pinned", 1)
			}
		}
		before, _ := start["before"].(map[string]any)
		after, _ := l["after"].(map[string]any)
		// strace view
		var prctlTid, seccompTid int
		var prctlSeen, seccompSeen, prctlBeforeSeccomp bool
		if pl.strace {
			for _, sc := range res.Strace {
				switch {
				case sc.Name == "prctl" && len(sc.Args) > 1 && sc.Args[0] == 38:
					if !prctlSeen {
						prctlTid = sc.Tid
					}
					prctlSeen = true
					if sc.Args[1] != 1 {
						run.Violation("prctl-wrong-argument", fmt.Sprintf("%s: prctl(PR_SET_NO_NEW_PRIVS, %d)", desc, sc.Args[1]), replay)
						return
					}
				case sc.Name == "seccomp" && len(sc.Args) > 0 && sc.Args[0] == 1:
					if !seccompSeen {
						seccompTid = sc.Tid
						prctlBeforeSeccomp = prctlSeen
					}
					seccompSeen = true
				}
			}
			run.Count("strace_logs_judged", 1)
		}
		preset := i%7 == 5
		if preset {
			run.Count("children_with_nnp_preset_on_main_thread", 1)
			run.Count("prior:"+cc.NNPCase.Prior, 1)
			if cc.NNPCase.Prior != "" && fmt.Sprint(l["preset_err"]) == "" {
				run.Count("prior_load_not_declined_not_judged", 1)
				return
			}
			// what the main thread (and the thread with the divergent filter) did before is not the judged load: only the calls
			// of the thread that runs the judged load count
			loadTid := int(jsonU64(l["tid_before"]))
			prctlSeen, prctlBeforeSeccomp = false, false
			seccompSeen = false
			for _, sc := range res.Strace {
				if sc.Tid != loadTid {
					continue
				}
				switch {
				case sc.Name == "prctl" && len(sc.Args) > 1 && sc.Args[0] == 38:
					if !prctlSeen {
						prctlTid = sc.Tid
					}
					prctlSeen = true
				case sc.Name == "seccomp" && len(sc.Args) > 0 && sc.Args[0] == 1:
					if !seccompSeen {
						seccompTid = sc.Tid
						prctlBeforeSeccomp = prctlSeen
					}
					seccompSeen = true
				}
			}
		}
		if pl.nnp {
			if pl.strace {
				if seccompSeen && !prctlBeforeSeccomp {
					run.Violation("nnp-not-set-before-install", fmt.Sprintf("%s: NoNewPrivs requested but no prctl(PR_SET_NO_NEW_PRIVS, 1) precedes the seccomp call", desc), replay)
					return
				}
				if seccompSeen && prctlSeen {
					mu.Lock()
					if prctlTid == seccompTid {
						tidPairs["same-thread"]++
					} else {
						tidPairs["different-threads"]++
					}
					mu.Unlock()
					if prctlTid != seccompTid {
						run.Violation("nnp-on-other-thread", fmt.Sprintf("%s: prctl(PR_SET_NO_NEW_PRIVS) was issued by thread %d, the filter was installed by thread %d (goroutine migrated=%v)", desc, prctlTid, seccompTid, migrated), replay)
						return
					}
				}
			} else if in := jsonU64(l["hook_tid_in"]); in != 0 {
				// without strace: thread at the schedule point vs thread at the install hook
				ins, _ := l["installs"].([]any)
				if len(ins) > 0 {
					m, _ := ins[0].(map[string]any)
					if jsonU64(m["tid"]) != in {
						run.Violation("nnp-on-other-thread", fmt.Sprintf("%s: the goroutine was on thread %d after prctl and on thread %d when it installed the filter", desc, in, jsonU64(m["tid"])), replay)
						return
					}
				}
			}
			if outerEinval && !ok && fmt.Sprint(start["outer_err"]) == "" {
				run.Count("refused_log_flag_surfaced_as_error", 1) // the right answer: nothing to judge
				return
			}
			// state-based: the thread that installed the filter carries the bit afterwards (the first attempt and, if the
			// library made several, the last one - the one that succeeded)
			if ins, _ := l["installs"].([]any); ok && len(ins) > 0 {
				for _, idx := range []int{0, len(ins) - 1} {
					m, _ := ins[idx].(map[string]any)
					itid := fmt.Sprint(jsonU64(m["tid"]))
					if am, _ := after[itid].(map[string]any); am != nil && fmt.Sprint(am["Exiting"]) != "1" && fmt.Sprint(am["NoNewPrivs"]) != "1" {
						run.Violation("installing-thread-without-nnp", fmt.Sprintf("%s: NoNewPrivs requested and the load returned nil, but the installing thread %s (install attempt %d of %d) has NoNewPrivs=%v", desc, itid, idx+1, len(ins), am["NoNewPrivs"]), replay)
						return
					}
				}
				if si := res.Line("second_install"); si != nil {
					// the hook of a second install attempt moved the goroutine (it was not locked): the thread it left the hook on
					// is the one that made the system call
					stid := fmt.Sprint(jsonU64(si["tid_out"]))
					if am, _ := after[stid].(map[string]any); am != nil && fmt.Sprint(am["Exiting"]) != "1" && fmt.Sprint(am["NoNewPrivs"]) != "1" {
						run.Violation("installing-thread-without-nnp", fmt.Sprintf("%s: NoNewPrivs requested and the load returned nil after %d install attempts; the last one was made on thread %s (the goroutine was not kept on the thread that set the bit: entered the hook on %v), which has NoNewPrivs=%v", desc, len(ins), stid, si["tid_in"], am["NoNewPrivs"]), replay)
						return
					}
				}
				run.Count("installing_thread_state_checked", 1)
				if len(ins) > 1 {
					run.Count("loads_with_more_than_one_install_attempt", 1)
					m0, _ := ins[0].(map[string]any)
					m1, _ := ins[len(ins)-1].(map[string]any)
					if jsonU64(m0["tid"]) != jsonU64(m1["tid"]) {
						run.Count("loads_whose_last_install_attempt_ran_on_another_thread_than_the_first", 1)
					}
				}
			}
			if sameBefore && ok && fmt.Sprint(l["prior_err"]) == "" {
				self, _ := l["self"].(map[string]any)
				run.Count("loads_judged_after_an_identical_load_without_nnp", 1)
				if self != nil && fmt.Sprint(self["NoNewPrivs"]) != "1" {
					run.Violation("nil-with-nnp-requested-but-bit-not-set", fmt.Sprintf("%s: the same filter had been loaded before without NoNewPrivs; this load asked for it and returned nil, but the calling thread (locked by the caller) has NoNewPrivs=%v", desc, self["NoNewPrivs"]), replay)
					return
				}
			}
			if !ok {
				sig := "load-fails-with-nnp-requested"
				if pl.unpriv {
					sig = "unprivileged-load-fails-with-nnp-requested"
				}
				run.Violation(sig, fmt.Sprintf("%s: NoNewPrivs requested and the filter is valid, but LoadFilter returned %q (goroutine migrated=%v)", desc, errText, migrated), replay)
				return
			}
			if pl.unpriv {
				run.Count("unprivileged_loads_ok", 1)
			}
		} else {
			if pl.strace && prctlSeen {
				run.Violation("nnp-set-although-not-requested", fmt.Sprintf("%s: NoNewPrivs not requested but prctl(PR_SET_NO_NEW_PRIVS) was called", desc), replay)
				return
			}
			for tid, v := range after {
				m, _ := v.(map[string]any)
				bm, _ := before[tid].(map[string]any)
				if preset && tid != fmt.Sprint(l["tid_before"]) {
					continue // the main thread set the bit itself and new threads inherit it from their creator: only the loading thread is judged
				}
				if bm != nil && fmt.Sprint(m["NoNewPrivs"]) != fmt.Sprint(bm["NoNewPrivs"]) {
					run.Violation("nnp-bit-changed-although-not-requested", fmt.Sprintf("%s: NoNewPrivs of task %s changed %v -> %v", desc, tid, bm["NoNewPrivs"], m["NoNewPrivs"]), replay)
					return
				}
				if bm == nil && fmt.Sprint(m["NoNewPrivs"]) != "0" {
					run.Violation("nnp-bit-changed-although-not-requested", fmt.Sprintf("%s: new task %s has NoNewPrivs=%v", desc, tid, m["NoNewPrivs"]), replay)
					return
				}
			}
			if pl.unpriv {
				if ok {
					run.Violation("unprivileged-load-without-nnp-succeeds", fmt.Sprintf("%s: an unprivileged load without NoNewPrivs returned nil", desc), replay)
					return
				}
				for tid, v := range after {
					m, _ := v.(map[string]any)
					if preset && tid == fmt.Sprint(jsonU64(l["other_worker_tid"])) {
						continue // the harness gave this thread a filter of its own (prior step "declined-divergent")
					}
					if fmt.Sprint(m["Seccomp"]) != "0" || (fmt.Sprint(m["Seccomp_filters"]) != "0" && fmt.Sprint(m["Seccomp_filters"]) != "") {
						run.Violation("failed-unprivileged-load-installed-filter", fmt.Sprintf("%s: LoadFilter returned %q but task %s has Seccomp=%v filters=%v", desc, errText, tid, m["Seccomp"], m["Seccomp_filters"]), replay)
						return
					}
				}
				if !strings.Contains(errText, "permission denied") {
					run.Count("unprivileged_failures_with_other_error", 1)
				}
				run.Count("unprivileged_loads_failed_as_required", 1)
			} else if !ok {
				run.Violation("privileged-load-fails", fmt.Sprintf("%s: privileged load without NoNewPrivs failed: %s", desc, errText), replay)
				return
			}
		}
		if ok && pl.flags&1 != 0 { // with thread-sync every thread is filtered, wherever the goroutine runs now
			pe, _ := l["probe_errnos"].([]any)
			if len(pe) > 0 && jsonU64(pe[0]) != vlib.EPERM {
				run.Violation("loading-goroutine-not-filtered", fmt.Sprintf("%s: LoadFilter returned nil but the loading goroutine's probe returns errno %v (migrated=%v, flags=%#x)", desc, pe[0], migrated, pl.flags), replay)
				return
			}
		}
		mu.Lock()
		distinct[fmt.Sprint(pl.mode, pl.unpriv, pl.nnp, pl.flags, migrated)] = true
		mu.Unlock()
		if i == 5 || i == 40 {
			run.Sample(2, map[string]any{"desc": desc, "ok": ok, "err": errText, "migrated": migrated, "prctl_tid": prctlTid, "seccomp_tid": seccompTid})
		}
	})
	run.Set("prctl_vs_seccomp_thread", tidPairs)
	run.Assume("schedules between prctl and seccomp are: none, a Gosched storm with 64 competing goroutines, and a forced migration (hook H3 pins the current thread under another goroutine); the forced migration is refused when the loading goroutine is locked to its thread, which is the property holding",
		"unprivileged = uid/gid 65534 without capabilities; amd64 host kernel")
	if run.Violations() == 0 {
		run.Require("children", int64(len(plans)*9/10))
		run.Require("mode:migrate", 10)
		run.Require("unprivileged_loads_ok", 10)
		run.Require("unprivileged_loads_failed_as_required", 10)
		run.Require("strace_logs_judged", 20)
		if run.Counter("migrations_achieved")+run.Counter("migrations_refused_goroutine_is_pinned") < 10 {
			run.Inconclusive("forced migration neither achieved nor refused often enough")
		}
	}
	run.Finish(run.Counter("children"), int64(len(distinct)),
		"one child per (schedule mode in {plain, Gosched storm, forced migration at hook H3, GOMAXPROCS+2 CPU-bound goroutines}, GOMAXPROCS 1/2/4/default, caller already locked or not, privileged/uid 65534, NoNewPrivs on/off, flags 0..3), repeated; strace records which thread issued prctl(PR_SET_NO_NEW_PRIVS) and seccomp and in which order; /proc state of all tasks before/after; unprivileged loads must succeed iff NoNewPrivs was requested; distinct = (mode, privilege, nnp, flags, migrated) cells")
}
