package main

import (
	"fmt"
	"math/rand"
	"strings"
	"sync"

	seccomp "github.com/elastic/go-seccomp-bpf"
	"github.com/elastic/go-seccomp-bpf/arch"

	"verif/harness/vlib"
)

func init() { checks["C07"] = c07 }

// injection is one defect put into a copy of a valid policy.
type injection struct {
	kind string
	pos  string
	spec vlib.PolicySpec
}

func cloneSpec(s vlib.PolicySpec) vlib.PolicySpec {
	return vlib.SpecOf(s.Policy(), s.Arch)
}

// foreignName returns a name valid for another architecture but not for t.
func foreignName(t *vlib.Target, ts []*vlib.Target) string {
	for _, o := range ts {
		for _, n := range o.Names {
			if _, ok := t.Num[n]; !ok {
				return n
			}
		}
	}
	return "no_such_syscall"
}

func injections(r *rand.Rand, base vlib.PolicySpec, t *vlib.Target, ts []*vlib.Target) []injection {
	var out []injection
	add := func(kind, pos string, s vlib.PolicySpec) { out = append(out, injection{kind, pos, s}) }

	// unknown default action
	for _, a := range []uint32{vlib.RetUserNotif, 1, 0x00050001, 0x7fff0001, 0x7ffe0000, 0xffffffff, 0x00040000, 0x80000001} {
		s := cloneSpec(base)
		s.Default = a
		add("unknown-default-action", fmt.Sprintf("%#x", a), s)
	}
	// no groups
	s := cloneSpec(base)
	s.Groups, s.NilSyscalls = nil, true
	add("no-groups", "nil", s)
	s = cloneSpec(base)
	s.Groups = nil
	add("no-groups", "empty-slice", s)

	badNames := []string{"", strings.ToUpper(t.Names[5]), t.Names[5] + " ", " " + t.Names[5], foreignName(t, ts), "x32_only_nonexistent", "read\x00"}
	for gi, g := range base.Groups {
		// unknown name at each index (insert and replace)
		for ni := 0; ni <= len(g.Names); ni++ {
			if len(g.Names) > 12 && ni > 2 && ni < len(g.Names)-2 && ni != len(g.Names)/2 {
				continue // long lists: first, middle, last positions
			}
			bad := badNames[r.Intn(len(badNames))]
			s := cloneSpec(base)
			names := append([]string{}, s.Groups[gi].Names[:ni]...)
			names = append(names, bad)
			names = append(names, s.Groups[gi].Names[ni:]...)
			s.Groups[gi].Names = names
			add("unknown-name", fmt.Sprintf("group %d names[%d]=%q", gi, ni, bad), s)
		}
		for wi := range g.With {
			if len(g.With) > 12 && wi > 2 && wi < len(g.With)-2 && wi != len(g.With)/2 {
				continue
			}
			bad := badNames[r.Intn(len(badNames))]
			s := cloneSpec(base)
			s.Groups[gi].With[wi].Name = bad
			add("unknown-name", fmt.Sprintf("group %d names_with_args[%d]=%q", gi, wi, bad), s)
		}
		// duplicate at pairs of indices
		if len(g.Names) >= 1 {
			pairs := [][2]int{{0, 0}, {0, len(g.Names) - 1}, {len(g.Names) - 1, len(g.Names) - 1}, {len(g.Names) / 2, 0}, {r.Intn(len(g.Names)), r.Intn(len(g.Names))}}
			for _, pr := range pairs {
				// copy names[pr[0]] and insert it after index pr[1]
				s := cloneSpec(base)
				n := s.Groups[gi].Names
				dup := n[pr[0]]
				names := append([]string{}, n[:pr[1]+1]...)
				names = append(names, dup)
				names = append(names, n[pr[1]+1:]...)
				s.Groups[gi].Names = names
				add("duplicate-name", fmt.Sprintf("group %d: names[%d] repeated after index %d", gi, pr[0], pr[1]), s)
			}
		}
		// a name both with and without conditions
		if len(g.Names) >= 1 {
			for _, ni := range []int{0, len(g.Names) - 1, r.Intn(len(g.Names))} {
				for _, at := range []int{0, len(g.With)} {
					s := cloneSpec(base)
					e := vlib.EntrySpec{Name: g.Names[ni], Conds: []vlib.CondSpec{{Arg: 1, Op: "Equal", Val: 5}}}
					w := append([]vlib.EntrySpec{}, s.Groups[gi].With[:at]...)
					w = append(w, e)
					w = append(w, s.Groups[gi].With[at:]...)
					s.Groups[gi].With = w
					add("conditional-and-unconditional", fmt.Sprintf("group %d: names[%d] also conditional at %d", gi, ni, at), s)
				}
			}
		}
		if len(g.With) >= 1 {
			for _, wi := range []int{0, len(g.With) - 1} {
				s := cloneSpec(base)
				s.Groups[gi].Names = append(s.Groups[gi].Names, g.With[wi].Name)
				add("conditional-and-unconditional", fmt.Sprintf("group %d: names_with_args[%d] also in names", gi, wi), s)
			}
		}
		if len(g.Names) >= 1 {
			// a name of the group listed once more in names_with_args, with a condition list that is empty
			for k, empty := range [][]vlib.CondSpec{nil, {}} {
				s := cloneSpec(base)
				s.Groups[gi].With = append(s.Groups[gi].With, vlib.EntrySpec{Name: g.Names[(gi+k)%len(g.Names)], Conds: empty})
				add("conditional-and-unconditional", fmt.Sprintf("group %d: a name of names also in names_with_args with an empty condition list (variant %d)", gi, k), s)
			}
		}
		// argument index above 5, unknown operation: at each condition position
		for wi, e := range g.With {
			if len(g.With) > 8 && wi > 1 && wi < len(g.With)-2 && wi != len(g.With)/2 {
				continue
			}
			for ci := range e.Conds {
				// indices above 5, incl. those that look small once truncated, sign-converted or multiplied by eight
				bi := []uint32{6, 7, 255, 1 << 31, 1<<32 - 1, 8, 1 << 29, 1<<31 | 6, 1<<31 | 5, 1<<29 | 6, 1<<29 | 2, 1<<32 - 2, 1 << 16, 1<<8 | 3}[r.Intn(14)]
				s := cloneSpec(base)
				s.Groups[gi].With[wi].Conds[ci].Arg = bi
				add("argument-index", fmt.Sprintf("group %d entry %d cond %d/%d arg=%d", gi, wi, ci, len(e.Conds), bi), s)
				bop := []string{"", "equal", "EQUAL", "Foo", "Equal ", "==", "bitsset", "NotEquals"}[r.Intn(8)]
				s = cloneSpec(base)
				s.Groups[gi].With[wi].Conds[ci].Op = bop
				pos := "middle"
				switch {
				case len(e.Conds) == 1:
					pos = "only"
				case ci == 0:
					pos = "first"
				case ci == len(e.Conds)-1:
					pos = "last"
				}
				add("unknown-operation", fmt.Sprintf("group %d entry %d cond %d (%s) op=%q", gi, wi, ci, pos, bop), s)
			}
		}
	}
	return out
}

func c07() {
	run := vlib.NewRun("C07", "exploration")
	_, ts := mustTargets(run)

	var mu sync.Mutex
	byKind := map[string]int64{}
	opPos := map[string]int64{}
	distinct := map[string]bool{}

	// (1) architectures without tables, through the public lookup
	for _, name := range []string{"ppc", "ppc64", "ppc64le", "s390", "s390x", "mips", "mipsle", "mips64", "mips64n32", "mips64p32", "mipsel64", "mips64le", "mipsel64n32", "mips64p32le", "sparc", "riscv64", "loong64", "wasm", "PPC64", "nonsense"} {
		info, err := arch.GetInfo(name)
		run.Count("unsupported_arch_lookups", 1)
		if err == nil || info != nil {
			run.Violation("unsupported-arch-accepted", fmt.Sprintf("arch.GetInfo(%q) returns a table/nil error for an architecture without syscall tables", name), map[string]any{"check": "C07", "arch": name})
		}
	}
	// compile for an Info without tables (hook H1): must be an error, no program
	for _, info := range []*arch.Info{arch.PPC, arch.PPC64, arch.PPC64LE, arch.S390, arch.S390X, arch.MIPS, arch.MIPSEL, arch.MIPS64, arch.MIPS64N32, arch.MIPSEL64, arch.MIPSEL64N32} {
		p := &seccomp.Policy{DefaultAction: vlib.RetAllow, Syscalls: []seccomp.SyscallGroup{{Names: []string{"read"}, Action: vlib.RetErrno}}}
		c := vlib.Compile(p, &vlib.Target{Name: info.Name, Info: info})
		run.Count("tableless_arch_compiles", 1)
		if c.Panic != nil || c.Err == nil || c.Ins != nil {
			run.Violation("tableless-arch-compiles", fmt.Sprintf("policy compiled for %s (no syscall table): err=%v panic=%v program=%d instructions", info.Name, c.Err, c.Panic, len(c.Ins)), map[string]any{"check": "C07", "arch": info.Name})
		}
	}

	// (2) defect injection into valid base policies
	nBase := run.N(500, 8000)
	vlib.Parallel(nBase, func(i int) {
		r := caseRand(run, i)
		t := ts[i%len(ts)]
		mp := vlib.DefaultMixed()
		mp.MaxGroups, mp.BigNamesChance, mp.LongListChance = 3, 12, 12
		base := vlib.SpecOf(vlib.GenMixed(r, t, mp), t.Name)
		bc := vlib.Compile(base.Policy(), t)
		if !bc.OK() {
			run.Count("base_not_accepted", 1) // judged in (3)
			return
		}
		for _, inj := range injections(r, base, t, ts) {
			p := inj.spec.Policy()
			if i%3 == 1 {
				vlib.ShareBackingArray(p) // the groups' lists are sub-slices of one array, as when carved out of one list
				run.Count("injected_defects_in_policies_whose_groups_share_one_array", 1)
			}
			c := vlib.Compile(p, t)
			run.Count("injected_defects", 1)
			mu.Lock()
			byKind[inj.kind]++
			if inj.kind == "unknown-operation" {
				opPos[strings.Split(strings.Split(inj.pos, "(")[1], ")")[0]]++
			}
			distinct[inj.kind+"|"+fmt.Sprint(len(inj.spec.Groups))+"|"+inj.pos[:min(14, len(inj.pos))]] = true
			mu.Unlock()
			replay := map[string]any{"check": "C07", "defect": inj.kind, "position": inj.pos, "policy": inj.spec}
			switch {
			case c.Panic != nil:
				run.Violation("panic:"+inj.kind, fmt.Sprintf("arch %s: %s at %s: Assemble panics: %v", t.Name, inj.kind, inj.pos, c.Panic), replay)
			case c.Err == nil:
				run.Violation("accepted:"+inj.kind, fmt.Sprintf("arch %s: %s at %s: Assemble returns nil error and %d instructions", t.Name, inj.kind, inj.pos, len(c.Ins)), replay)
			case c.Ins != nil:
				run.Violation("program-with-error:"+inj.kind, fmt.Sprintf("arch %s: %s at %s: Assemble returns an error together with a program", t.Name, inj.kind, inj.pos), replay)
			default:
				run.Count("rejected", 1)
			}
		}
		if i < 2 {
			run.Sample(2, map[string]any{"base_policy": base.Brief(), "injections": len(injections(caseRand(run, i), base, t, ts))})
		}
	})

	// (3) acceptance and rule-drop on defect-free policies
	nValid := run.N(3000, 50000)
	vlib.Parallel(nValid, func(i int) {
		r := caseRand(run, 1000000+i)
		t := ts[i%len(ts)]
		var p *seccomp.Policy
		switch i % 3 {
		case 0:
			p = vlib.GenNamesOnly(r, t, r.Intn(3), vlib.NamedActions, vlib.NamedActions)
		case 1:
			mp := vlib.DefaultMixed()
			mp.LongListChance, mp.BigNamesChance = 2, 3
			p = vlib.GenMixed(r, t, mp)
		default:
			p = vlib.GenMixed(r, t, vlib.DefaultMixed())
		}
		spec := vlib.SpecOf(p, t.Name)
		if i%4 == 1 {
			vlib.ShareBackingArray(p)
		}
		c := vlib.Compile(p, t)
		run.Count("valid_policies", 1)
		replay := map[string]any{"check": "C07", "policy": spec}
		if c.Panic != nil {
			run.Violation("valid-policy-panics", fmt.Sprintf("arch %s: Assemble panics on a defect-free policy: %v", t.Name, c.Panic), replay)
			return
		}
		if c.Err != nil {
			// only policies that fit the kernel limit must be accepted; without a
			// program the size is unknown, so estimate generously from the policy
			if estimateSize(p) <= 3000 {
				run.Violation("valid-policy-rejected", fmt.Sprintf("arch %s: defect-free policy (estimated %d instructions) rejected: %v", t.Name, estimateSize(p), c.Err), replay)
			} else {
				run.Count("large_policy_rejected_not_judged", 1)
			}
			return
		}
		run.Count("valid_accepted", 1)
		if c.RawErr != nil || len(c.Raw) > 4096 {
			return // C05's subject / outside the limit
		}
		// rule-drop oracle: for every condition c of every list there must be an
		// event pair differing only in what c tests whose verdicts differ,
		// unless the reference semantics says the pair does not differ either.
		ref := vlib.NewRef(spec.Policy(), t)
		pool := vlib.AdversarialPool(p, t)
		budget := 300
		for gi, g := range p.Syscalls {
			for ei, nc := range g.NamesWithCondtions {
				for k := range nc.Conditions {
					if budget == 0 {
						return
					}
					budget--
					base := vlib.FillArgs(r, pool)
					sat, ok1 := vlib.Satisfy(r, nc.Conditions, base)
					fl, ok2 := vlib.FailExactly(r, nc.Conditions, k, sat)
					if !ok1 || !ok2 {
						run.Count("rule_drop_pairs_unsolved", 1)
						continue
					}
					nr := t.Num[nc.Name]
					e1 := vlib.Event{NR: nr, Arch: t.ID, Args: sat}
					e2 := vlib.Event{NR: nr, Arch: t.ID, Args: fl}
					w1, _ := ref.Decide(e1)
					w2, _ := ref.Decide(e2)
					if w1 == w2 {
						run.Count("rule_drop_pairs_semantically_redundant", 1)
						continue
					}
					ww1, ww2 := e1.Words(false), e2.Words(false)
					t1, err1 := c.RunBoth(&ww1, nil, false)
					t2, err2 := c.RunBoth(&ww2, nil, false)
					run.Count("rule_drop_pairs_evaluated", 1)
					if err1 == nil && err2 == nil && t1.Ret == t2.Ret {
						replay["events"] = []vlib.Event{e1, e2}
						run.Violation("condition-ignored", fmt.Sprintf("arch %s: group %d entry %d condition %d (%+v) has no effect: events differing only in that argument both get %#x, the policy distinguishes them (%#x vs %#x)", t.Name, gi, ei, k, nc.Conditions[k], t1.Ret, w1, w2), replay)
						return
					}
				}
			}
		}
	})
	// (4) acceptance at the size limit
	c07SizeLimit(run, ts)
	for k, v := range byKind {
		run.Count("defect:"+k, v)
	}
	for k, v := range opPos {
		run.Count("unknown-operation-position:"+k, v)
	}
	run.Assume("defects are injected one at a time into accepted base policies from the mixed profile",
		"entries with an empty condition list and unnamed group actions are outside the property and never generated as expected rejections",
		"a rejected defect-free policy is judged only when its estimated size is far below 4096 instructions, or (size-limit families) when the running compiler's own observed growth per entry, regular over the last 20 entries and on a smaller base, predicts at most 4096 instructions")
	if run.Violations() == 0 {
		for _, k := range []string{"unknown-default-action", "no-groups", "unknown-name", "duplicate-name", "conditional-and-unconditional", "argument-index", "unknown-operation"} {
			run.Require("defect:"+k, 10)
		}
		run.Require("policies_of_4090_to_4096_instructions_accepted", 1)
		for _, k := range []string{"only", "first", "middle", "last"} {
			run.Require("unknown-operation-position:"+k, 1)
		}
		run.Require("rule_drop_pairs_evaluated", 100)
		run.Require("valid_accepted", 100)
	}
	run.RunSecondaryBuild()
	run.Finish(run.Counter("injected_defects")+run.Counter("valid_policies")+run.Counter("unsupported_arch_lookups")+run.Counter("tableless_arch_compiles"), int64(len(distinct)),
		"each defect class of the statement injected at every position (first/middle/last for long lists) of accepted PRNG base policies on 4 architectures; tableless architectures through GetInfo and hook H1; defect-free policies from three profiles must be accepted; rule-drop pairs (satisfying event vs event failing exactly one condition) must get different verdicts whenever the reference semantics distinguishes them; distinct = (defect kind, groups, position class)")
}

// estimateSize bounds the program size of a policy from above, loosely.
func estimateSize(p *seccomp.Policy) int {
	n := 8
	for _, g := range p.Syscalls {
		n += len(g.Names) + 3
		for _, nc := range g.NamesWithCondtions {
			n += 3 + 6*len(nc.Conditions)
		}
	}
	return n + n/40 // bridges
}
