// vc runs one verification check: vc <property-id>. Tier and seed come from
// VERIF_TIER / VERIF_SEED. See /verif/DESIGN.md.
package main

import (
	"encoding/json"
	"fmt"
	"math/rand"
	"os"
	"sort"
	"strings"

	"verif/harness/vlib"
)

var checks = map[string]func(){}

func main() {
	if len(os.Args) < 2 {
		fmt.Fprintln(os.Stderr, "usage: vc <check> [args]")
		os.Exit(2)
	}
	f, ok := checks[os.Args[1]]
	if !ok {
		var names []string
		for k := range checks {
			names = append(names, k)
		}
		sort.Strings(names)
		fmt.Fprintln(os.Stderr, "unknown check; have:", names)
		os.Exit(2)
	}
	if id := os.Args[1]; len(id) == 3 && id[0] == 'C' && os.Getenv("VERIF_GUARDED") == "" && vlib.SubRun() == "" {
		guarded(id) // does not return
	}
	f()
}

// caseRand returns the PRNG of case i: a fixed function of (seed, check, i),
// so that every case is reproducible on its own and cases can run in
// parallel.
func caseRand(run *vlib.Run, i int) *rand.Rand {
	h := int64(0)
	for _, c := range run.ID {
		h = h*131 + int64(c)
	}
	return rand.New(rand.NewSource(run.Seed*1000003 + h*7919 + int64(i)))
}

func mustTargets(run *vlib.Run) (*vlib.Oracles, []*vlib.Target) {
	o, err := vlib.LoadOracles()
	if err != nil {
		run.Inconclusive("cannot load oracles: " + err.Error())
		run.Finish(0, 0, "")
	}
	ts, err := vlib.Targets(o)
	if err != nil {
		run.Inconclusive("cannot build targets: " + err.Error())
		run.Finish(0, 0, "")
	}
	return o, ts
}

func writeJSON(path string, v any) error {
	b, err := json.Marshal(v)
	if err != nil {
		return err
	}
	return os.WriteFile(path, b, 0o644)
}

// parseChildLines parses the JSON lines a vchild prints.
func parseChildLines(out string) []map[string]any {
	var lines []map[string]any
	for _, l := range strings.Split(out, "\n") {
		var m map[string]any
		d := json.NewDecoder(strings.NewReader(l))
		d.UseNumber()
		if d.Decode(&m) == nil && m != nil {
			lines = append(lines, m)
		}
	}
	return lines
}
