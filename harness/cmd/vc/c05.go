package main

import (
	"fmt"
	"sort"
	"strings"
	"sync"
	"time"

	seccomp "github.com/elastic/go-seccomp-bpf"
	"golang.org/x/net/bpf"

	"verif/harness/vlib"
)

func init() { checks["C05"] = c05 }

// reachableRets returns the constants of the return instructions reachable
// from pc 0 (forward walk over both successors of every jump).
func reachableRets(raw []bpf.RawInstruction) (map[uint32]bool, bool) {
	rets := map[uint32]bool{}
	seen := make([]bool, len(raw))
	stack := []int{0}
	fellOff := false
	for len(stack) > 0 {
		pc := stack[len(stack)-1]
		stack = stack[:len(stack)-1]
		if pc >= len(raw) {
			fellOff = true
			continue
		}
		if seen[pc] {
			continue
		}
		seen[pc] = true
		in := raw[pc]
		switch in.Op {
		case 0x06:
			rets[in.K] = true
		case 0x05:
			stack = append(stack, pc+1+int(in.K))
		case 0x15, 0x25, 0x35, 0x45:
			stack = append(stack, pc+1+int(in.Jt), pc+1+int(in.Jf))
		default:
			stack = append(stack, pc+1)
		}
	}
	return rets, fellOff
}

type tpolicy struct {
	t    *vlib.Target
	p    *seccomp.Policy
	kind string
}

func eqList(base uint64, n int) seccomp.ArgumentConditions {
	var cs seccomp.ArgumentConditions
	for a := 0; a < n; a++ {
		cs = append(cs, seccomp.Condition{Argument: uint32(a % 6), Operation: vlib.AllOps[a%8], Value: base + uint64(a)})
	}
	return cs
}

func c05Catalogue(ts []*vlib.Target) []tpolicy {
	var out []tpolicy
	for _, t := range ts {
		n := t.Names
		g := func(a seccomp.Action, names ...string) seccomp.SyscallGroup {
			return seccomp.SyscallGroup{Names: names, Action: a}
		}
		for _, def := range []seccomp.Action{vlib.RetAllow, vlib.RetErrno, vlib.RetKillThread} {
			out = append(out,
				tpolicy{t, &seccomp.Policy{DefaultAction: def, Syscalls: []seccomp.SyscallGroup{g(vlib.RetTrap)}}, "degenerate:one-empty-group"},
				tpolicy{t, &seccomp.Policy{DefaultAction: def, Syscalls: []seccomp.SyscallGroup{g(vlib.RetTrap), g(vlib.RetLog), g(vlib.RetErrno)}}, "degenerate:all-groups-empty"},
				tpolicy{t, &seccomp.Policy{DefaultAction: def, Syscalls: []seccomp.SyscallGroup{{Names: []string{}, NamesWithCondtions: []seccomp.NameWithConditions{}, Action: vlib.RetTrap}}}, "degenerate:empty-non-nil-slices"},
				tpolicy{t, &seccomp.Policy{DefaultAction: def, Syscalls: []seccomp.SyscallGroup{g(vlib.RetTrap), g(vlib.RetLog, n[1])}}, "degenerate:first-group-empty"},
				tpolicy{t, &seccomp.Policy{DefaultAction: def, Syscalls: []seccomp.SyscallGroup{g(vlib.RetLog, n[1]), g(vlib.RetTrap)}}, "degenerate:last-group-empty"},
				tpolicy{t, &seccomp.Policy{DefaultAction: def, Syscalls: []seccomp.SyscallGroup{g(vlib.RetLog, n[1]), g(vlib.RetTrap), g(vlib.RetErrno, n[2])}}, "degenerate:middle-group-empty"},
				tpolicy{t, &seccomp.Policy{DefaultAction: def, Syscalls: []seccomp.SyscallGroup{g(vlib.RetLog, n[7])}}, "degenerate:single-name"},
				tpolicy{t, &seccomp.Policy{DefaultAction: def, Syscalls: []seccomp.SyscallGroup{g(vlib.RetLog, n...)}}, "whole-table"},
			)
		}
		// maximal condition lists: 30 lists x 8 conditions on one syscall, and on three syscalls
		var with []seccomp.NameWithConditions
		for l := 0; l < 30; l++ {
			with = append(with, seccomp.NameWithConditions{Name: n[3], Conditions: eqList(uint64(l*8), 8)})
		}
		out = append(out, tpolicy{t, &seccomp.Policy{DefaultAction: vlib.RetAllow, Syscalls: []seccomp.SyscallGroup{{Action: vlib.RetErrno, NamesWithCondtions: with}}}, "30x8-lists"})
		var with3 []seccomp.NameWithConditions
		for _, nm := range []string{n[3], n[4], n[5]} {
			for l := 0; l < 30; l++ {
				with3 = append(with3, seccomp.NameWithConditions{Name: nm, Conditions: eqList(uint64(l*8), 8)})
			}
		}
		out = append(out, tpolicy{t, &seccomp.Policy{DefaultAction: vlib.RetAllow, Syscalls: []seccomp.SyscallGroup{{Action: vlib.RetErrno, Names: []string{n[9]}, NamesWithCondtions: with3}}}, "3x30x8-lists"})
	}
	return out
}

// sizedPolicy builds a policy whose program length approaches target: many
// condition lists first, then single names to fine-tune.
func sizedPolicy(t *vlib.Target, target int, variant int) *seccomp.Policy {
	p := &seccomp.Policy{DefaultAction: vlib.RetAllow}
	n := t.Names
	grp := seccomp.SyscallGroup{Action: vlib.RetErrno}
	per := 4 + variant%5 // conditions per list
	est := 10
	size := func(cs seccomp.ArgumentConditions) int {
		n := 0
		for _, c := range cs {
			switch c.Operation {
			case "GreaterThan", "GreaterOrEqual", "LessThan", "LessOrEqual":
				n += 5
			default:
				n += 4
			}
		}
		return n
	}
	for s := 0; est < target-150 && s < 200; s++ {
		est += 2
		for l := 0; l < 20 && est < target-150; l++ {
			cs := eqList(uint64(s*1000+l*8), per)
			grp.NamesWithCondtions = append(grp.NamesWithCondtions, seccomp.NameWithConditions{Name: n[s], Conditions: cs})
			est += size(cs)
		}
	}
	p.Syscalls = append(p.Syscalls, grp)
	return p
}

func c05() {
	run := vlib.NewRun("C05", "exploration")
	_, ts := mustTargets(run)
	var cases []tpolicy
	cases = append(cases, c05Catalogue(ts)...)
	for _, x := range c01Catalogue(ts) {
		cases = append(cases, tpolicy{x.t, x.p, "c01-catalogue"})
	}
	for _, x := range c03Catalogue(ts) {
		cases = append(cases, tpolicy{x.t, x.p, "c03-catalogue"})
	}
	nCat := len(cases)
	nRandom := run.N(6000, 100000)
	// programs around the 4096 limit
	type sized struct {
		t       *vlib.Target
		target  int
		variant int
	}
	var sizedCases []sized
	for vi := 0; vi < run.N(1, 5); vi++ {
		for _, t := range ts {
			for target := 4088; target <= 4100; target++ {
				sizedCases = append(sizedCases, sized{t, target, vi})
			}
		}
	}
	total := nCat + nRandom + len(sizedCases)

	var mu sync.Mutex
	kinds := map[string]int64{}
	rejections := map[string]int64{}
	lenBuckets := map[string]int64{}
	retWords := map[uint32]bool{}
	distinct := map[string]bool{}
	maxLen, maxChecked := 0, 0

	var judgeOne func(tp tpolicy, i int)
	judgeOne = func(tp tpolicy, i int) {
		t, p := tp.t, tp.p
		spec := vlib.SpecOf(p, t.Name)
		c := vlib.Compile(p, t)
		run.Count("policies", 1)
		if c.Panic != nil || c.Err != nil {
			run.Count("not_accepted", 1)
			return
		}
		run.Count("accepted", 1)
		fail := func(sig, what string) {
			run.Violation(sig, fmt.Sprintf("arch %s, %s policy accepted by Assemble: %s", t.Name, tp.kind, what),
				map[string]any{"check": "C05", "policy": spec, "kind": tp.kind, "program_len": len(c.Ins), "case": i})
		}
		if c.RawErr != nil {
			fail("raw-encoding-fails", "bpf.Assemble fails: "+c.RawErr.Error())
			return
		}
		mu.Lock()
		if len(c.Raw) > maxLen {
			maxLen = len(c.Raw)
		}
		mu.Unlock()
		if len(c.Raw) > 4096 {
			run.Count("longer_than_4096_not_judged", 1)
			return
		}
		if rule := vlib.KernelCheck(c.Raw); rule != "" {
			sig := rule
			for k, ch := range rule {
				if ch == '@' {
					sig = rule[:k]
				}
			}
			fail("kernel-rule:"+sig, fmt.Sprintf("the kernel verifier rejects the %d-instruction program: %s", len(c.Raw), rule))
			mu.Lock()
			rejections[sig]++
			mu.Unlock()
			return
		}
		ref := vlib.NewRef(spec.Policy(), t)
		allowed := ref.AllowedReturns()
		rets, fell := reachableRets(c.Raw)
		if fell {
			fail("path-leaves-program", "a path runs past the last instruction")
			return
		}
		for v := range rets {
			if !allowed[v] {
				fail("stray-return-value", fmt.Sprintf("the program can return %#x, which is neither the default, a group action nor ERRNO(ENOSYS) on x86_64", v))
				return
			}
		}
		run.Count("programs_checked", 1)
		bucket := "<=255"
		switch {
		case len(c.Raw) > 4000:
			bucket = "4001..4096"
		case len(c.Raw) > 1000:
			bucket = "1001..4000"
		case len(c.Raw) > 255:
			bucket = "256..1000"
		}
		mu.Lock()
		kinds[tp.kind]++
		lenBuckets[bucket]++
		if len(c.Raw) > maxChecked {
			maxChecked = len(c.Raw)
		}
		for v := range rets {
			retWords[v] = true
		}
		distinct[fmt.Sprint(tp.kind, t.Name, len(c.Raw))] = true
		mu.Unlock()
		if tp.kind == "near-4096" && len(c.Raw) >= 4090 {
			run.Count("programs_4090_to_4096", 1)
			run.Sample(2, map[string]any{"kind": tp.kind, "arch": t.Name, "program_len": len(c.Raw), "policy": spec.Brief()})
		}
		if tp.kind == "degenerate:all-groups-empty" {
			run.Sample(3, map[string]any{"kind": tp.kind, "arch": t.Name, "program": vlib.DumpRaw(c.Raw), "policy": spec.Brief()})
		}
	}

	vlib.Parallel(total, func(i int) {
		r := caseRand(run, i)
		var tp tpolicy
		switch {
		case i < nCat:
			tp = cases[i]
		case i < nCat+nRandom:
			t := ts[i%len(ts)]
			switch i % 4 {
			case 0:
				tp = tpolicy{t, vlib.GenNamesOnly(r, t, r.Intn(3), append(append([]seccomp.Action{}, vlib.NamedActions...), vlib.RetUserNotif, seccomp.Action(r.Uint32())), vlib.NamedActions), "names-only"}
			case 1:
				mp := vlib.DefaultMixed()
				mp.LongListChance, mp.BigNamesChance = 2, 3
				tp = tpolicy{t, vlib.GenMixed(r, t, mp), "mixed-long"}
			default:
				tp = tpolicy{t, vlib.GenMixed(r, t, vlib.DefaultMixed()), "mixed"}
			}
			if i%9 == 5 {
				run.Count("policies_with_data_bits_in_group_actions", 1)
				vlib.WithDataBits(r, tp.p)
			}
		default:
			sc := sizedCases[i-nCat-nRandom]
			p := sizedPolicy(sc.t, sc.target, sc.variant)
			// fine-tune with single names until the program reaches the target
			names := sc.t.Names
			next := 250
			for step := 0; step < 12; step++ {
				c := vlib.Compile(vlib.SpecOf(p, sc.t.Name).Policy(), sc.t)
				if !c.OK() || len(c.Raw) >= sc.target {
					break
				}
				// one instruction per name; bridges may add a few more, so approach from below
				add := sc.target - len(c.Raw)
				if add > 8 {
					add -= add / 8
				}
				for a := 0; a < add && next < len(names); a++ {
					p.Syscalls[0].Names = append(p.Syscalls[0].Names, names[next])
					next++
				}
			}
			tp = tpolicy{sc.t, p, "near-4096"}
		}
		judgeOne(tp, i)
		// relatives built from the same group storage, as a caller gets who keeps his groups in one list and builds several
		// policies from it: prefixes and suffixes of the assembled policy's group list (sub-slices: the very same group
		// values), the list with its last group dropped in place, single groups and the reversed list as value copies. Each
		// is a policy of its own and what it compiles to must be a valid filter, whatever was compiled before
		if n := len(tp.p.Syscalls); n >= 2 && i%3 == 1 && tp.kind != "near-4096" {
			run.Count("policies_whose_groups_are_reused_in_further_policies", 1)
			groups := tp.p.Syscalls
			rel := func(gs []seccomp.SyscallGroup, how string) {
				run.Count("relatives_built_from_assembled_groups", 1)
				judgeOne(tpolicy{tp.t, &seccomp.Policy{DefaultAction: tp.p.DefaultAction, Syscalls: gs}, tp.kind + "+" + how}, i)
			}
			ks := []int{1, n - 1, 1 + r.Intn(n-1)}
			for j, k := range ks {
				if j > 0 && k == ks[j-1] {
					continue
				}
				rel(groups[:k], "prefix-of-assembled")
				rel(groups[k:], "suffix-of-assembled")
			}
			j := r.Intn(n)
			rel([]seccomp.SyscallGroup{groups[j]}, "single-group-copied-out")
			rev := make([]seccomp.SyscallGroup, n)
			for k := range groups {
				rev[n-1-k] = groups[k]
			}
			rel(rev, "reversed-copies")
			tp.p.Syscalls = groups[:n-1]
			judgeOne(tpolicy{tp.t, tp.p, tp.kind + "+last-group-dropped-in-place"}, i)
			tp.p.Syscalls = groups
			judgeOne(tpolicy{tp.t, tp.p, tp.kind + "+restored"}, i)
		}
	})
	// policies carrying a defect (C07's injections): whenever the compiler accepts one anyway, what it emits must still be a valid filter
	nInj := run.N(40, 1500)
	vlib.Parallel(nInj, func(i int) {
		r := caseRand(run, 6000000+i)
		t := ts[i%len(ts)]
		mp := vlib.DefaultMixed()
		mp.MaxGroups, mp.BigNamesChance, mp.LongListChance = 3, 12, 12
		base := vlib.SpecOf(vlib.GenMixed(r, t, mp), t.Name)
		for _, inj := range injections(r, base, t, ts) {
			c := vlib.Compile(inj.spec.Policy(), t)
			run.Count("defective_policies_offered", 1)
			if c.Panic != nil || c.Err != nil {
				continue
			}
			run.Count("defective_policies_accepted_by_compiler", 1)
			what := ""
			switch {
			case c.RawErr != nil:
				what = "bpf.Assemble fails: " + c.RawErr.Error()
			case len(c.Raw) <= 4096 && vlib.KernelCheck(c.Raw) != "":
				what = "the kernel verifier rejects the program: " + vlib.KernelCheck(c.Raw)
			}
			if what != "" {
				sig := "accepted-defective-policy-invalid-program:" + inj.kind
				run.Violation(sig, fmt.Sprintf("arch %s: policy with %s at %s is accepted by Assemble, and %s", t.Name, inj.kind, inj.pos, what),
					map[string]any{"check": "C05", "policy": inj.spec, "defect": inj.kind, "position": inj.pos})
				return
			}
		}
	})
	c05KernelTier(run, ts)
	var rw []string
	for v := range retWords {
		rw = append(rw, fmt.Sprintf("%#x", v))
	}
	sort.Strings(rw)
	run.Set("programs_by_kind", kinds)
	run.Set("programs_by_length", lenBuckets)
	run.Set("rejections_by_rule", rejections)
	run.Set("longest_program_seen", maxLen)
	run.Set("longest_program_checked", maxChecked)
	run.Set("distinct_return_words_seen", len(rw))
	run.Assume("KernelCheck is a transcription of bpf_check_classic + seccomp_check_filter; it is calibrated against the running kernel by the kernel tier of C05/C08 on host-loadable programs",
		"programs longer than 4096 instructions are outside the property and only counted")
	if run.Violations() == 0 {
		run.Require("programs_checked", 200)
		run.Require("programs_4090_to_4096", 1)
		run.Require("kernel_loads_of_accepted_programs", 20)
		run.Require("kernel_calibration_programs", 20)
		run.Require("kernel_calibration_rejected_by_both", 5)
	}
	run.RunSecondaryBuild()
	run.Finish(run.Counter("policies"), int64(len(distinct)),
		"every accepted policy of the degenerate catalogue (empty groups in each position, single name, whole table, 30x8 lists), the C01/C03 catalogues, the name-only and mixed PRNG profiles and size-steered policies of 4088..4100 instructions: raw encoding, kernel-verifier port, reachable return constants within {default, group actions, ENOSYS on x86_64}; distinct = (kind, arch, program length)")
}

// neutralise makes a policy harmless for the process that loads it without
// changing the shape of its program: default allow, group actions allow/log.
func neutralise(s vlib.PolicySpec) vlib.PolicySpec {
	n := vlib.SpecOf(s.Policy(), s.Arch)
	n.Default = vlib.RetAllow
	for i := range n.Groups {
		n.Groups[i].Action = []uint32{vlib.RetAllow, vlib.RetLog}[i%2]
	}
	return n
}

// c05KernelTier: (1) every host-loadable program shape is attached by the
// real kernel through the real LoadFilter; (2) the kernel-verifier port is
// calibrated against seccomp(2) on mutated raw programs.
func c05KernelTier(run *vlib.Run, ts []*vlib.Target) {
	if vlib.SubRun() != "" {
		return
	}
	o, err := vlib.LoadOracles()
	if err != nil {
		run.Inconclusive(err.Error())
		return
	}
	_ = o
	hosts := []struct {
		goarch string
		t      *vlib.Target
	}{{"amd64", targetByName(ts, "x86_64")}, {"386", targetByName(ts, "i386")}}
	var cases []struct {
		goarch string
		t      *vlib.Target
		spec   vlib.PolicySpec
		kind   string
	}
	for _, h := range hosts {
		for _, tp := range c05Catalogue([]*vlib.Target{h.t}) {
			cases = append(cases, struct {
				goarch string
				t      *vlib.Target
				spec   vlib.PolicySpec
				kind   string
			}{h.goarch, h.t, neutralise(vlib.SpecOf(tp.p, h.t.Name)), tp.kind})
		}
	}
	nRandom := run.N(150, 4000)
	for i := 0; i < nRandom; i++ {
		r := caseRand(run, 5000000+i)
		h := hosts[i%2]
		var p *seccomp.Policy
		kind := "mixed-long"
		switch i % 4 {
		case 0:
			p = vlib.GenNamesOnly(r, h.t, r.Intn(3), vlib.NamedActions, vlib.NamedActions)
			kind = "names-only"
		case 1:
			target := 4080 + r.Intn(17)
			p = sizedPolicy(h.t, target, i)
			for step := 0; step < 12; step++ {
				c := vlib.Compile(vlib.SpecOf(p, h.t.Name).Policy(), h.t)
				if !c.OK() || len(c.Raw) >= target {
					break
				}
				add := target - len(c.Raw)
				if add > 8 {
					add -= add / 8
				}
				for a := 0; a < add && 250+len(p.Syscalls[0].Names) < len(h.t.Names); a++ {
					p.Syscalls[0].Names = append(p.Syscalls[0].Names, h.t.Names[250+len(p.Syscalls[0].Names)])
				}
			}
			kind = "near-4096"
		default:
			mp := vlib.DefaultMixed()
			mp.LongListChance, mp.BigNamesChance = 2, 3
			p = vlib.GenMixed(r, h.t, mp)
		}
		cases = append(cases, struct {
			goarch string
			t      *vlib.Target
			spec   vlib.PolicySpec
			kind   string
		}{h.goarch, h.t, neutralise(vlib.SpecOf(p, h.t.Name)), kind})
	}
	var mu sync.Mutex
	var calib [][]bpf.RawInstruction
	maxLoaded := 0
	vlib.Parallel(len(cases), func(i int) {
		kc := cases[i]
		comp := vlib.Compile(kc.spec.Policy(), kc.t)
		if !comp.OK() || len(comp.Raw) > 4096 {
			return
		}
		variant := ""
		if kc.goarch == "386" {
			variant = "386"
		}
		bin, err := vlib.BuildHarnessCmd("vchild", variant)
		if err != nil {
			run.Inconclusive("cannot build vchild: " + err.Error())
			return
		}
		cc := &vlib.ChildCase{Policy: kc.spec, Flags: 0, NNP: true}
		res, err := vlib.RunChild(bin, "enforce", cc, false, 30*time.Second)
		if err != nil || res.TimedOut || res.Line("loaded") == nil {
			run.SoftInconclusive(fmt.Sprintf("kernel tier: child did not report (%v)", err))
			return
		}
		run.Count("kernel_loads_of_accepted_programs", 1)
		ok, _ := res.Line("loaded")["ok"].(bool)
		portSays := vlib.KernelCheck(comp.Raw)
		switch {
		case !ok && strings.Contains(fmt.Sprint(res.Line("loaded")["err"]), "invalid argument"):
			run.Violation("kernel-rejects:"+kc.kind, fmt.Sprintf("%s/%s: the running kernel refuses (EINVAL) the %d-instruction program Assemble returned without error (verifier port says %q)", kc.goarch, kc.kind, len(comp.Raw), portSays),
				map[string]any{"check": "C05", "policy": kc.spec, "kind": kc.kind, "goarch": kc.goarch, "load_error": res.Line("loaded")["err"]})
		case !ok:
			run.Inconclusive(fmt.Sprintf("kernel tier: load failed for another reason: %v", res.Line("loaded")["err"]))
		case portSays != "":
			run.Inconclusive(fmt.Sprintf("calibration: the verifier port rejects (%s) a program the kernel accepts; the port is too strict", portSays))
		}
		mu.Lock()
		if ok && len(comp.Raw) > maxLoaded {
			maxLoaded = len(comp.Raw)
		}
		if kc.goarch == "amd64" && len(calib) < run.N(12, 120) && len(comp.Raw) < 1500 {
			calib = append(calib, comp.Raw)
		}
		mu.Unlock()
	})
	run.Set("longest_program_loaded_into_kernel", maxLoaded)

	// calibration of the port on mutated programs (amd64, raw seccomp(2))
	bin, err := vlib.BuildHarnessCmd("vchild", "")
	if err != nil {
		run.Inconclusive("cannot build vchild: " + err.Error())
		return
	}
	type mutant struct {
		name string
		raw  []bpf.RawInstruction
	}
	var muts []mutant
	for ci, base := range calib {
		r := caseRand(run, 7000000+ci)
		cp := func() []bpf.RawInstruction { return append([]bpf.RawInstruction{}, base...) }
		jumps, loads := []int{}, []int{}
		for pc, in := range base {
			switch in.Op {
			case 0x15, 0x25, 0x35, 0x45:
				jumps = append(jumps, pc)
			case 0x20:
				loads = append(loads, pc)
			}
		}
		muts = append(muts, mutant{"unchanged", cp()})
		m := cp()
		muts = append(muts, mutant{"drop-last", m[:len(m)-1]})
		if len(jumps) > 0 {
			m = cp()
			m[jumps[r.Intn(len(jumps))]].Jt = 255
			muts = append(muts, mutant{"jt=255", m})
			m = cp()
			j := jumps[len(jumps)-1]
			m[j].Jf = uint8(len(m) - j - 1) // exactly one past the end
			muts = append(muts, mutant{"jf-one-past-end", m})
			m = cp()
			m[j].Jf = uint8(len(m) - j - 2) // last instruction: fine
			muts = append(muts, mutant{"jf-to-last", m})
		}
		if len(loads) > 0 {
			for _, k := range []uint32{64, 60, 62, 3, 0xfffff000, 1 << 31} {
				m = cp()
				m[loads[r.Intn(len(loads))]].K = k
				muts = append(muts, mutant{fmt.Sprintf("load-offset-%#x", k), m})
			}
			for _, op := range []uint16{0x28, 0x30, 0x00, 0x80, 0x94, 0xa4, 0x34, 0x60, 0x40, 0x07, 0x87, 0x0c, 0x1c, 0xff, 0x18, 0x21} {
				m = cp()
				l := loads[r.Intn(len(loads))]
				m[l].Op = op
				if op == 0x94 || op == 0x34 {
					m[l].K = uint32(r.Intn(2)) // K=0: division by zero
				}
				if op == 0x60 {
					m[l].K = uint32(r.Intn(20))
				}
				muts = append(muts, mutant{fmt.Sprintf("opcode-%#x-k%d", op, m[l].K), m})
			}
		}
		m = cp()
		m = append(m[:1], append([]bpf.RawInstruction{{Op: 0x05, K: uint32(len(m))}}, m[1:]...)...)
		muts = append(muts, mutant{"ja-past-end", m})
		m = cp()
		m = append(m[:1], append([]bpf.RawInstruction{{Op: 0x05, K: uint32(len(m) - 2)}}, m[1:]...)...)
		muts = append(muts, mutant{"ja-to-last", m})
		if ci == 0 {
			muts = append(muts, mutant{"empty", nil})
			big := cp()
			for len(big) < 4097 {
				big = append([]bpf.RawInstruction{{Op: 0x20, K: 0}}, big...)
			}
			muts = append(muts, mutant{"len-4097", big})
			muts = append(muts, mutant{"len-4096", big[1:]})
			muts = append(muts, mutant{"ret-a-last", append(cp(), bpf.RawInstruction{Op: 0x16})})
			muts = append(muts, mutant{"st-then-ldmem", append([]bpf.RawInstruction{{Op: 0x02, K: 3}, {Op: 0x60, K: 3}}, cp()...)})
			muts = append(muts, mutant{"ldmem-uninit", append([]bpf.RawInstruction{{Op: 0x02, K: 3}, {Op: 0x60, K: 4}}, cp()...)})
		}
	}
	vlib.Parallel(len(muts), func(i int) {
		mt := muts[i]
		// harmless for the child: every return becomes ALLOW
		cc := &vlib.ChildCase{}
		for _, in := range mt.raw {
			k := in.K
			if in.Op == 0x06 {
				k = vlib.RetAllow
			}
			cc.Raw = append(cc.Raw, [4]uint32{uint32(in.Op), uint32(in.Jt), uint32(in.Jf), k})
		}
		neutral := make([]bpf.RawInstruction, len(cc.Raw))
		for k, q := range cc.Raw {
			neutral[k] = bpf.RawInstruction{Op: uint16(q[0]), Jt: uint8(q[1]), Jf: uint8(q[2]), K: q[3]}
		}
		port := vlib.KernelCheck(neutral)
		res, err := vlib.RunChild(bin, "rawload", cc, false, 30*time.Second)
		if err != nil || res.TimedOut || res.Line("rawloaded") == nil {
			run.SoftInconclusive("calibration child did not report: " + mt.name)
			return
		}
		errno := jsonU64(res.Line("rawloaded")["errno"])
		run.Count("kernel_calibration_programs", 1)
		kernelAccepts := errno == 0
		if kernelAccepts != (port == "") {
			run.Inconclusive(fmt.Sprintf("calibration failure: mutant %q (%d instructions): kernel errno=%d, verifier port says %q", mt.name, len(mt.raw), errno, port))
			return
		}
		if kernelAccepts {
			run.Count("kernel_calibration_accepted_by_both", 1)
		} else {
			run.Count("kernel_calibration_rejected_by_both", 1)
		}
	})
}

// exactPolicy builds a harmless-to-tune policy whose program has exactly
// target instructions on t if possible (returns the length reached).
func exactPolicy(t *vlib.Target, target, variant int) (*seccomp.Policy, int) {
	length := func(p *seccomp.Policy) int {
		c := vlib.Compile(vlib.SpecOf(p, t.Name).Policy(), t)
		if !c.OK() {
			return 1 << 30
		}
		return len(c.Raw)
	}
	for v := variant; v < variant+6; v++ {
		p := sizedPolicy(t, target, v)
		l := length(p)
		for k := 0; l < target-60 && k < 200; k++ {
			p.Syscalls[0].NamesWithCondtions = append(p.Syscalls[0].NamesWithCondtions, seccomp.NameWithConditions{Name: t.Names[201+k/20], Conditions: eqList(uint64(900000+k*8), 4+v%5)})
			l = length(p)
		}
		next := 250
		for l < target && next < len(t.Names) {
			p.Syscalls[0].Names = append(p.Syscalls[0].Names, t.Names[next])
			next++
			l = length(p)
		}
		if l == target {
			return p, l
		}
	}
	p := sizedPolicy(t, target, variant)
	return p, length(p)
}
