package main

import (
	"fmt"
	"sort"
	"sync"

	seccomp "github.com/elastic/go-seccomp-bpf"
	"golang.org/x/net/bpf"

	"verif/harness/vlib"
)

func init() { checks["C05"] = c05 }

// reachableRets returns the constants of the return instructions reachable
// from pc 0 (forward walk over both successors of every jump).
func reachableRets(raw []bpf.RawInstruction) (map[uint32]bool, bool) {
	rets := map[uint32]bool{}
	seen := make([]bool, len(raw))
	stack := []int{0}
	fellOff := false
	for len(stack) > 0 {
		pc := stack[len(stack)-1]
		stack = stack[:len(stack)-1]
		if pc >= len(raw) {
			fellOff = true
			continue
		}
		if seen[pc] {
			continue
		}
		seen[pc] = true
		in := raw[pc]
		switch in.Op {
		case 0x06:
			rets[in.K] = true
		case 0x05:
			stack = append(stack, pc+1+int(in.K))
		case 0x15, 0x25, 0x35, 0x45:
			stack = append(stack, pc+1+int(in.Jt), pc+1+int(in.Jf))
		default:
			stack = append(stack, pc+1)
		}
	}
	return rets, fellOff
}

type tpolicy struct {
	t    *vlib.Target
	p    *seccomp.Policy
	kind string
}

func eqList(base uint64, n int) seccomp.ArgumentConditions {
	var cs seccomp.ArgumentConditions
	for a := 0; a < n; a++ {
		cs = append(cs, seccomp.Condition{Argument: uint32(a % 6), Operation: vlib.AllOps[a%8], Value: base + uint64(a)})
	}
	return cs
}

func c05Catalogue(ts []*vlib.Target) []tpolicy {
	var out []tpolicy
	for _, t := range ts {
		n := t.Names
		g := func(a seccomp.Action, names ...string) seccomp.SyscallGroup {
			return seccomp.SyscallGroup{Names: names, Action: a}
		}
		for _, def := range []seccomp.Action{vlib.RetAllow, vlib.RetErrno, vlib.RetKillThread} {
			out = append(out,
				tpolicy{t, &seccomp.Policy{DefaultAction: def, Syscalls: []seccomp.SyscallGroup{g(vlib.RetTrap)}}, "degenerate:one-empty-group"},
				tpolicy{t, &seccomp.Policy{DefaultAction: def, Syscalls: []seccomp.SyscallGroup{g(vlib.RetTrap), g(vlib.RetLog), g(vlib.RetErrno)}}, "degenerate:all-groups-empty"},
				tpolicy{t, &seccomp.Policy{DefaultAction: def, Syscalls: []seccomp.SyscallGroup{{Names: []string{}, NamesWithCondtions: []seccomp.NameWithConditions{}, Action: vlib.RetTrap}}}, "degenerate:empty-non-nil-slices"},
				tpolicy{t, &seccomp.Policy{DefaultAction: def, Syscalls: []seccomp.SyscallGroup{g(vlib.RetTrap), g(vlib.RetLog, n[1])}}, "degenerate:first-group-empty"},
				tpolicy{t, &seccomp.Policy{DefaultAction: def, Syscalls: []seccomp.SyscallGroup{g(vlib.RetLog, n[1]), g(vlib.RetTrap)}}, "degenerate:last-group-empty"},
				tpolicy{t, &seccomp.Policy{DefaultAction: def, Syscalls: []seccomp.SyscallGroup{g(vlib.RetLog, n[1]), g(vlib.RetTrap), g(vlib.RetErrno, n[2])}}, "degenerate:middle-group-empty"},
				tpolicy{t, &seccomp.Policy{DefaultAction: def, Syscalls: []seccomp.SyscallGroup{g(vlib.RetLog, n[7])}}, "degenerate:single-name"},
				tpolicy{t, &seccomp.Policy{DefaultAction: def, Syscalls: []seccomp.SyscallGroup{g(vlib.RetLog, n...)}}, "whole-table"},
			)
		}
		// maximal condition lists: 30 lists x 8 conditions on one syscall, and on three syscalls
		var with []seccomp.NameWithConditions
		for l := 0; l < 30; l++ {
			with = append(with, seccomp.NameWithConditions{Name: n[3], Conditions: eqList(uint64(l*8), 8)})
		}
		out = append(out, tpolicy{t, &seccomp.Policy{DefaultAction: vlib.RetAllow, Syscalls: []seccomp.SyscallGroup{{Action: vlib.RetErrno, NamesWithCondtions: with}}}, "30x8-lists"})
		var with3 []seccomp.NameWithConditions
		for _, nm := range []string{n[3], n[4], n[5]} {
			for l := 0; l < 30; l++ {
				with3 = append(with3, seccomp.NameWithConditions{Name: nm, Conditions: eqList(uint64(l*8), 8)})
			}
		}
		out = append(out, tpolicy{t, &seccomp.Policy{DefaultAction: vlib.RetAllow, Syscalls: []seccomp.SyscallGroup{{Action: vlib.RetErrno, Names: []string{n[9]}, NamesWithCondtions: with3}}}, "3x30x8-lists"})
	}
	return out
}

// sizedPolicy builds a policy whose program length approaches target: many
// condition lists first, then single names to fine-tune.
func sizedPolicy(t *vlib.Target, target int, variant int) *seccomp.Policy {
	p := &seccomp.Policy{DefaultAction: vlib.RetAllow}
	n := t.Names
	grp := seccomp.SyscallGroup{Action: vlib.RetErrno}
	per := 4 + variant%5 // conditions per list
	est := 10
	size := func(cs seccomp.ArgumentConditions) int {
		n := 0
		for _, c := range cs {
			switch c.Operation {
			case "GreaterThan", "GreaterOrEqual", "LessThan", "LessOrEqual":
				n += 5
			default:
				n += 4
			}
		}
		return n
	}
	for s := 0; est < target-150 && s < 200; s++ {
		est += 2
		for l := 0; l < 20 && est < target-150; l++ {
			cs := eqList(uint64(s*1000+l*8), per)
			grp.NamesWithCondtions = append(grp.NamesWithCondtions, seccomp.NameWithConditions{Name: n[s], Conditions: cs})
			est += size(cs)
		}
	}
	p.Syscalls = append(p.Syscalls, grp)
	return p
}

func c05() {
	run := vlib.NewRun("C05", "exploration")
	_, ts := mustTargets(run)
	var cases []tpolicy
	cases = append(cases, c05Catalogue(ts)...)
	for _, x := range c01Catalogue(ts) {
		cases = append(cases, tpolicy{x.t, x.p, "c01-catalogue"})
	}
	for _, x := range c03Catalogue(ts) {
		cases = append(cases, tpolicy{x.t, x.p, "c03-catalogue"})
	}
	nCat := len(cases)
	nRandom := run.N(1500, 40000)
	// programs around the 4096 limit
	type sized struct {
		t       *vlib.Target
		target  int
		variant int
	}
	var sizedCases []sized
	for vi := 0; vi < run.N(1, 5); vi++ {
		for _, t := range ts {
			for target := 4088; target <= 4100; target++ {
				sizedCases = append(sizedCases, sized{t, target, vi})
			}
		}
	}
	total := nCat + nRandom + len(sizedCases)

	var mu sync.Mutex
	kinds := map[string]int64{}
	rejections := map[string]int64{}
	lenBuckets := map[string]int64{}
	retWords := map[uint32]bool{}
	distinct := map[string]bool{}
	maxLen, maxChecked := 0, 0

	vlib.Parallel(total, func(i int) {
		r := caseRand(run, i)
		var tp tpolicy
		switch {
		case i < nCat:
			tp = cases[i]
		case i < nCat+nRandom:
			t := ts[i%len(ts)]
			switch i % 4 {
			case 0:
				tp = tpolicy{t, vlib.GenNamesOnly(r, t, r.Intn(3), append(append([]seccomp.Action{}, vlib.NamedActions...), vlib.RetUserNotif, seccomp.Action(r.Uint32())), vlib.NamedActions), "names-only"}
			case 1:
				mp := vlib.DefaultMixed()
				mp.LongListChance, mp.BigNamesChance = 2, 3
				tp = tpolicy{t, vlib.GenMixed(r, t, mp), "mixed-long"}
			default:
				tp = tpolicy{t, vlib.GenMixed(r, t, vlib.DefaultMixed()), "mixed"}
			}
		default:
			sc := sizedCases[i-nCat-nRandom]
			p := sizedPolicy(sc.t, sc.target, sc.variant)
			// fine-tune with single names until the program reaches the target
			names := sc.t.Names
			next := 250
			for step := 0; step < 12; step++ {
				c := vlib.Compile(vlib.SpecOf(p, sc.t.Name).Policy(), sc.t)
				if !c.OK() || len(c.Raw) >= sc.target {
					break
				}
				// one instruction per name; bridges may add a few more, so approach from below
				add := sc.target - len(c.Raw)
				if add > 8 {
					add -= add / 8
				}
				for a := 0; a < add && next < len(names); a++ {
					p.Syscalls[0].Names = append(p.Syscalls[0].Names, names[next])
					next++
				}
			}
			tp = tpolicy{sc.t, p, "near-4096"}
		}
		t, p := tp.t, tp.p
		spec := vlib.SpecOf(p, t.Name)
		c := vlib.Compile(p, t)
		run.Count("policies", 1)
		if c.Panic != nil || c.Err != nil {
			run.Count("not_accepted", 1)
			return
		}
		run.Count("accepted", 1)
		fail := func(sig, what string) {
			run.Violation(sig, fmt.Sprintf("arch %s, %s policy accepted by Assemble: %s", t.Name, tp.kind, what),
				map[string]any{"check": "C05", "policy": spec, "kind": tp.kind, "program_len": len(c.Ins), "case": i})
		}
		if c.RawErr != nil {
			fail("raw-encoding-fails", "bpf.Assemble fails: "+c.RawErr.Error())
			return
		}
		mu.Lock()
		if len(c.Raw) > maxLen {
			maxLen = len(c.Raw)
		}
		mu.Unlock()
		if len(c.Raw) > 4096 {
			run.Count("longer_than_4096_not_judged", 1)
			return
		}
		if rule := vlib.KernelCheck(c.Raw); rule != "" {
			sig := rule
			for k, ch := range rule {
				if ch == '@' {
					sig = rule[:k]
				}
			}
			fail("kernel-rule:"+sig, fmt.Sprintf("the kernel verifier rejects the %d-instruction program: %s", len(c.Raw), rule))
			mu.Lock()
			rejections[sig]++
			mu.Unlock()
			return
		}
		ref := vlib.NewRef(spec.Policy(), t)
		allowed := ref.AllowedReturns()
		rets, fell := reachableRets(c.Raw)
		if fell {
			fail("path-leaves-program", "a path runs past the last instruction")
			return
		}
		for v := range rets {
			if !allowed[v] {
				fail("stray-return-value", fmt.Sprintf("the program can return %#x, which is neither the default, a group action nor ERRNO(ENOSYS) on x86_64", v))
				return
			}
		}
		run.Count("programs_checked", 1)
		bucket := "<=255"
		switch {
		case len(c.Raw) > 4000:
			bucket = "4001..4096"
		case len(c.Raw) > 1000:
			bucket = "1001..4000"
		case len(c.Raw) > 255:
			bucket = "256..1000"
		}
		mu.Lock()
		kinds[tp.kind]++
		lenBuckets[bucket]++
		if len(c.Raw) > maxChecked {
			maxChecked = len(c.Raw)
		}
		for v := range rets {
			retWords[v] = true
		}
		distinct[fmt.Sprint(tp.kind, t.Name, len(c.Raw))] = true
		mu.Unlock()
		if tp.kind == "near-4096" && len(c.Raw) >= 4090 {
			run.Count("programs_4090_to_4096", 1)
			run.Sample(2, map[string]any{"kind": tp.kind, "arch": t.Name, "program_len": len(c.Raw), "policy": spec.Brief()})
		}
		if tp.kind == "degenerate:all-groups-empty" {
			run.Sample(3, map[string]any{"kind": tp.kind, "arch": t.Name, "program": vlib.DumpRaw(c.Raw), "policy": spec.Brief()})
		}
	})
	var rw []string
	for v := range retWords {
		rw = append(rw, fmt.Sprintf("%#x", v))
	}
	sort.Strings(rw)
	run.Set("programs_by_kind", kinds)
	run.Set("programs_by_length", lenBuckets)
	run.Set("rejections_by_rule", rejections)
	run.Set("longest_program_seen", maxLen)
	run.Set("longest_program_checked", maxChecked)
	run.Set("distinct_return_words_seen", len(rw))
	run.Assume("KernelCheck is a transcription of bpf_check_classic + seccomp_check_filter; it is calibrated against the running kernel by the kernel tier of C05/C08 on host-loadable programs",
		"programs longer than 4096 instructions are outside the property and only counted")
	if run.Violations() == 0 {
		run.Require("programs_checked", 200)
		run.Require("programs_4090_to_4096", 1)
	}
	run.Finish(run.Counter("policies"), int64(len(distinct)),
		"every accepted policy of the degenerate catalogue (empty groups in each position, single name, whole table, 30x8 lists), the C01/C03 catalogues, the name-only and mixed PRNG profiles and size-steered policies of 4088..4100 instructions: raw encoding, kernel-verifier port, reachable return constants within {default, group actions, ENOSYS on x86_64}; distinct = (kind, arch, program length)")
}
