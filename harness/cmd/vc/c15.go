package main

import (
	"bytes"
	"encoding/json"
	"fmt"
	"os"
	"os/exec"
	"path/filepath"
	"strings"
	"sync"
	"sync/atomic"
	"syscall"
	"time"

	seccomp "github.com/elastic/go-seccomp-bpf"

	"verif/harness/vlib"
)

func init() { checks["C15"] = c15 }

type sandboxRun struct {
	stdout, stderr string
	exit           int
	signaled       bool
	timedOut       bool
	marker         bool
}

var sandboxEnvSeq int64

func runSandbox(dir string, pre []string, sandbox string, args []string, marker string) (*sandboxRun, error) {
	henv := vlib.HostileEnvs[int(atomic.AddInt64(&sandboxEnvSeq, 1))%len(vlib.HostileEnvs)]
	os.Remove(marker)
	argv := append(append([]string{}, pre...), sandbox)
	argv = append(argv, args...)
	cmd := exec.Command(argv[0], argv[1:]...)
	cmd.Dir = dir
	cmd.Env = append(append(os.Environ(), "VERIF_MARKER="+marker, "X=getppid", "A=allow", "N=getpid"), henv...)
	var so, se bytes.Buffer
	cmd.Stdout, cmd.Stderr = &so, &se
	cmd.SysProcAttr = &syscall.SysProcAttr{Setpgid: true}
	cmd.WaitDelay = 2 * time.Second
	if err := cmd.Start(); err != nil {
		return nil, err
	}
	done := make(chan error, 1)
	go func() { done <- cmd.Wait() }()
	res := &sandboxRun{}
	select {
	case <-done:
	case <-time.After(30 * time.Second):
		res.timedOut = true
		syscall.Kill(-cmd.Process.Pid, syscall.SIGKILL)
		<-done
	}
	if ws, ok := cmd.ProcessState.Sys().(syscall.WaitStatus); ok {
		res.exit, res.signaled = ws.ExitStatus(), ws.Signaled()
	}
	res.stdout, res.stderr = so.String(), se.String()
	if _, err := os.Stat(marker); err == nil {
		res.marker = true
	}
	return res, nil
}

func c15() {
	run := vlib.NewRun("C15", "fault_enumeration")
	o, ts := mustTargets(run)
	t := targetByName(ts, "x86_64")
	sandbox, err := vlib.BuildRepoCmd("./cmd/sandbox", "sandbox")
	if err != nil {
		run.Inconclusive("cannot build cmd/sandbox: " + err.Error())
		run.Finish(0, 0, "")
	}
	target, err := vlib.BuildHarnessCmd("vchild", "")
	if err != nil {
		run.Inconclusive(err.Error())
		run.Finish(0, 0, "")
	}
	root := filepath.Join(vlib.BinDir(), "c15")
	os.MkdirAll(root, 0o755)
	probes := probeNames["amd64"]
	probeCase := &vlib.ChildCase{}
	for _, nm := range probes {
		probeCase.Probes = append(probeCase.Probes, vlib.Probe{Kind: "syscall", NR: uint64(t.Num[nm])})
	}

	validYAML := "seccomp:\n  default_action: allow\n  syscalls:\n  - action: errno\n    names:\n    - getppid\n"
	oversize, _ := c09Policies(t)
	r0 := caseRand(run, 0)
	type fault struct {
		kind   string
		policy *string // nil: file missing
		pre    []string
		args   func(policyPath, casePath string) []string
		// decoy: a permissive seccomp.yml (the default name) lies in the working directory
		decoy bool
		// unpriv: the directory is made writable for everybody (the command runs as nobody and leaves the marker there)
		unpriv bool
	}
	str := func(s string) *string { return &s }
	std := func(extra ...string) func(string, string) []string {
		return func(pp, cp string) []string {
			return append(append([]string{"-policy", pp}, extra...), target, "probe", cp)
		}
	}
	faults := []fault{
		{kind: "policy-file-missing", policy: nil, args: std()},
		{kind: "policy-file-is-directory", policy: str("<DIR>"), args: std()},
		{kind: "policy-file-empty", policy: str(""), args: std()},
		{kind: "not-yaml", policy: str("seccomp: [unclosed\n  default_action: {allow\n"), args: std()},
		{kind: "not-yaml-binary", policy: str("\x00\x01\x02\xff\xfe garbage \x00"), args: std()},
		{kind: "yaml-but-scalar", policy: str("just a string\n"), args: std()},
		{kind: "unknown-default-action", policy: str(strings.Replace(validYAML, "default_action: allow", "default_action: permit", 1)), args: std()},
		{kind: "unknown-group-action", policy: str(strings.Replace(validYAML, "action: errno", "action: deny", 1)), args: std()},
		{kind: "numeric-action", policy: str(strings.Replace(validYAML, "action: errno", "action: 327680", 1)), args: std()},
		{kind: "unknown-syscall", policy: str(strings.Replace(validYAML, "- getppid", "- getppid\n    - no_such_syscall", 1)), args: std()},
		{kind: "unknown-syscall-only", policy: str(strings.Replace(validYAML, "- getppid", "- GETPPID", 1)), args: std()},
		{kind: "unknown-operation", policy: str("seccomp:\n  default_action: allow\n  syscalls:\n  - action: errno\n    names_with_args:\n    - name: getppid\n      arguments:\n      - argument: 0\n        operation: Matches\n        value: 1\n"), args: std()},
		{kind: "argument-index-too-large", policy: str("seccomp:\n  default_action: allow\n  syscalls:\n  - action: errno\n    names_with_args:\n    - name: getppid\n      arguments:\n      - argument: 6\n        operation: Equal\n        value: 1\n"), args: std()},
		{kind: "duplicate-syscall", policy: str(strings.Replace(validYAML, "- getppid", "- getppid\n    - getppid", 1)), args: std()},
		{kind: "no-groups", policy: str("seccomp:\n  default_action: allow\n"), args: std()},
		{kind: "empty-groups-list", policy: str("seccomp:\n  default_action: allow\n  syscalls: []\n"), args: std()},
		{kind: "group-without-action", policy: str("seccomp:\n  default_action: allow\n  syscalls:\n  - names:\n    - getppid\n"), args: std()},
		{kind: "kernel-refuses-oversize", policy: str(handYAML(r0, oversize["oversize"])), args: std()},
		{kind: "kernel-refuses-seccomp-EINVAL", policy: str(validYAML), pre: []string{"strace", "-f", "-o", "/dev/null", "-e", "trace=seccomp", "-e", "inject=seccomp:error=EINVAL"}, args: std()},
		{kind: "kernel-refuses-seccomp-EACCES", policy: str(validYAML), pre: []string{"strace", "-f", "-o", "/dev/null", "-e", "trace=seccomp", "-e", "inject=seccomp:error=EACCES"}, args: std()},
		{kind: "kernel-refuses-seccomp-ENOSYS", policy: str(validYAML), pre: []string{"strace", "-f", "-o", "/dev/null", "-e", "trace=seccomp", "-e", "inject=seccomp:error=ENOSYS"}, args: std()},
		{kind: "kernel-refuses-seccomp-tsync-tid", policy: str(validYAML), pre: []string{"strace", "-f", "-o", "/dev/null", "-e", "trace=seccomp", "-e", "inject=seccomp:retval=4242"}, args: std()},
		{kind: "prctl-fails-EPERM", policy: str(validYAML), pre: []string{"strace", "-f", "-o", "/dev/null", "-e", "trace=prctl", "-e", "inject=prctl:error=EPERM"}, args: std()},
		{kind: "prctl-fails-EINVAL-no-new-privs-flag", policy: str(validYAML), pre: []string{"strace", "-f", "-o", "/dev/null", "-e", "trace=prctl", "-e", "inject=prctl:error=EINVAL"}, args: std("-no-new-privs=true")},
	}
	for _, errno := range []string{"ENOMEM", "EFAULT", "ESRCH", "EBUSY", "EPERM", "EAGAIN", "EINTR", "E2BIG"} {
		faults = append(faults, fault{kind: "kernel-refuses-seccomp-" + errno, policy: str(validYAML), pre: []string{"strace", "-f", "-o", "/dev/null", "-e", "trace=seccomp", "-e", "inject=seccomp:error=" + errno}, args: std()})
	}
	// near-miss action names (one byte of a documented name changed; never a mere letter-case variant): unknown, so refused
	yq := func(s string) string {
		out := "\""
		for _, c := range []byte(s) {
			if c < 0x20 || c >= 0x7f || c == '"' || c == '\\' {
				out += fmt.Sprintf("\\x%02x", c)
			} else {
				out += string(c)
			}
		}
		return out + "\""
	}
	var nearNames []string
	for _, nm := range []string{"allow", "errno", "kill_process", "kill_thread", "log", "trace", "trap"} {
		ms := byteMutants(nm)
		nearNames = append(nearNames, strings.Replace(nm, "_", "\x7f", 1), strings.ToUpper(nm)+"\x00")
		for k := 0; k < run.N(2, 30); k++ {
			nearNames = append(nearNames, ms[r0.Intn(len(ms))])
		}
	}
	// the library's own text for a value without a name is no name either (and would denote a different action when read back)
	nearNames = append(nearNames, "unknown", "unknown", "Unknown", "UNKNOWN")
	nNear := 0
	for _, nm := range nearNames {
		isDoc := false
		for _, d := range []string{"allow", "errno", "kill_process", "kill_thread", "log", "trace", "trap"} {
			if strings.EqualFold(d, nm) {
				isDoc = true
			}
		}
		if isDoc {
			continue
		}
		nNear++
		if nNear%2 == 0 {
			faults = append(faults, fault{kind: "near-miss-default-action", policy: str(strings.Replace(validYAML, "default_action: allow", "default_action: "+yq(nm), 1)), args: std()})
		} else {
			faults = append(faults, fault{kind: "near-miss-group-action", policy: str(strings.Replace(validYAML, "action: errno", "action: "+yq(nm), 1)), args: std()})
		}
	}
	// the same defects far into a large file: comment lines are legal YAML, so a
	// policy file can have any size; what follows the padding must still count
	pad := func(n int) string {
		line := "# " + strings.Repeat("padding ", 12) + "\n"
		return strings.Repeat(line, n/len(line)+1)
	}
	bigSizes := []int{5000, 66000, 200000, 1 << 20, 1<<20 + 4096, 3 << 20, 16<<20 + 17}
	if run.Thorough() {
		bigSizes = append(bigSizes, 64<<20, 130<<20)
	}
	// references to the environment and dotted keys: the policy is what the file says, literally - "${X:getppid}" is no
	// syscall name, whatever the environment holds (the sandbox runs with X, A and N set)
	for k, bad := range []string{"${X}", "${X:getppid}", "${NOPE:getppid}", "${X:}", "$X", "${env.X}", "%{X}", "${X:${N:getppid}}"} {
		faults = append(faults, fault{kind: fmt.Sprintf("syscall-name-is-a-reference-%d", k), policy: str(strings.Replace(validYAML, "- getppid", "- \""+bad+"\"", 1)), args: std()})
	}
	for k, bad := range []string{"${A}", "${A:allow}", "${NOPE:allow}"} {
		faults = append(faults, fault{kind: fmt.Sprintf("action-is-a-reference-%d", k), policy: str(strings.Replace(validYAML, "default_action: allow", "default_action: \""+bad+"\"", 1)), args: std()},
			fault{kind: fmt.Sprintf("group-action-is-a-reference-%d", k), policy: str(strings.Replace(validYAML, "action: errno", "action: \""+bad+"\"", 1)), args: std()})
	}
	faults = append(faults,
		fault{kind: "dotted-keys-only", policy: str("seccomp.default_action: allow\nseccomp.syscalls:\n- action: errno\n  names:\n  - getppid\n"), args: std()},
		fault{kind: "groups-under-a-dotted-key", policy: str("seccomp:\n  default_action: allow\nseccomp.syscalls:\n- action: errno\n  names:\n  - getppid\n"), args: std()})
	// an empty policy name is no file (a permissive file under the default name lies in the working directory)
	for k, form := range [][]string{{"-policy", ""}, {"-policy="}, {"--policy="}, {"--policy", ""}} {
		form := form
		faults = append(faults, fault{kind: fmt.Sprintf("empty-policy-name-%d", k), policy: str(validYAML), decoy: true,
			args: func(pp, cp string) []string { return append(append([]string{}, form...), target, "probe", cp) }})
	}
	// an unprivileged caller that does not ask for no_new_privs: the kernel refuses the filter, the target must not run
	nobody := []string{"/usr/bin/setpriv", "--reuid=65534", "--regid=65534", "--clear-groups"}
	faults = append(faults,
		fault{kind: "unprivileged-without-no-new-privs", policy: str(validYAML), pre: nobody, unpriv: true, args: std("-no-new-privs=false")},
		fault{kind: "unprivileged-without-no-new-privs-padded", policy: str(validYAML + pad(66000)), pre: nobody, unpriv: true, args: std("-no-new-privs=false")})
	// many defects at once (the status of a process keeps only eight bits of whatever is derived from their number)
	for _, n := range []int{2, 3, 100, 255, 256, 257, 511, 512, 513, 1024, 65536} {
		var b strings.Builder
		b.WriteString("seccomp:\n  default_action: allow\n  syscalls:\n  - action: errno\n    names:\n")
		for k := 0; k < n; k++ {
			fmt.Fprintf(&b, "    - no_such_syscall_%d\n", k)
		}
		faults = append(faults, fault{kind: fmt.Sprintf("%d-unknown-syscalls", n), policy: str(b.String()), args: std()})
		if n <= 1024 {
			var g strings.Builder
			g.WriteString("seccomp:\n  default_action: allow\n  syscalls:\n")
			for k := 0; k < n; k++ {
				fmt.Fprintf(&g, "  - action: errno\n    names:\n    - no_such_syscall_%d\n", k)
			}
			faults = append(faults, fault{kind: fmt.Sprintf("%d-groups-with-an-unknown-syscall", n), policy: str(g.String()), args: std()})
		}
	}
	for _, sz := range bigSizes {
		faults = append(faults,
			fault{kind: fmt.Sprintf("unknown-syscall-after-%d-bytes", sz), policy: str(validYAML + pad(sz) + "  - action: errno\n    names:\n    - no_such_syscall\n"), args: std()},
			fault{kind: fmt.Sprintf("malformed-after-%d-bytes", sz), policy: str(validYAML + pad(sz) + "  - action: [unclosed\n"), args: std()},
			fault{kind: fmt.Sprintf("unknown-action-after-%d-bytes", sz), policy: str(validYAML + pad(sz) + "  - action: deny\n    names:\n    - getuid\n"), args: std()},
		)
	}
	var mu sync.Mutex
	byKind := map[string]int64{}
	distinct := map[string]bool{}
	reps := run.N(1, 4)
	vlib.Parallel(len(faults)*reps, func(idx int) {
		f := faults[idx%len(faults)]
		dir := filepath.Join(root, fmt.Sprintf("f%d", idx))
		os.MkdirAll(dir, 0o755)
		defer os.RemoveAll(dir)
		pp := filepath.Join(dir, "policy.yml")
		if f.policy != nil {
			if *f.policy == "<DIR>" {
				os.MkdirAll(pp, 0o755)
			} else {
				os.WriteFile(pp, []byte(*f.policy), 0o644)
			}
		}
		if f.decoy {
			os.WriteFile(filepath.Join(dir, "seccomp.yml"), []byte("seccomp:\n  default_action: allow\n  syscalls:\n  - action: allow\n    names:\n    - getppid\n"), 0o644)
		}
		if f.unpriv {
			os.Chmod(dir, 0o777)
		}
		cp := filepath.Join(dir, "case.json")
		writeJSON(cp, probeCase)
		os.Chmod(cp, 0o644)
		marker := filepath.Join(dir, "marker")
		res, err := runSandbox(dir, f.pre, sandbox, f.args(pp, cp), marker)
		if err != nil || res.timedOut {
			run.SoftInconclusive(fmt.Sprintf("sandbox run failed (%s): %v", f.kind, err))
			return
		}
		run.Count("fault_runs", 1)
		replay := map[string]any{"check": "C15", "fault": f.kind, "policy_file": f.policy, "pre": f.pre, "exit": res.exit, "stdout": tail(res.stdout, 400), "stderr": tail(res.stderr, 400)}
		if res.marker {
			run.Violation("target-ran-without-policy:"+f.kind, fmt.Sprintf("fault '%s': the target program was started although the policy could not be installed (exit %d)", f.kind, res.exit), replay)
			return
		}
		if res.exit == 0 && !res.signaled {
			run.Violation("exit-0-without-policy:"+f.kind, fmt.Sprintf("fault '%s': the sandbox command exits 0", f.kind), replay)
			return
		}
		mu.Lock()
		byKind[f.kind]++
		distinct["fault:"+f.kind] = true
		mu.Unlock()
	})
	// a missing policy file stays missing although permissive files of the same name exist in other plausible places
	// (next to the executable, in the home directory, in the parent and in a sub-directory of the working directory)
	// ... and although a permissive file lies where the name would lead if ".." were removed from it as text: behind a
	// symbolic link to a directory, ".." is the parent of the link's target (in the name itself, or in a working directory
	// that was entered through the link and is remembered that way in $PWD)
	for vi, variant := range []string{"relative-name", "default-name", "relative-with-dir", "dot-slash", "dotdot-behind-a-symlinked-directory", "dotdot-from-a-working-directory-entered-through-a-symlink"} {
		dir := filepath.Join(root, fmt.Sprintf("decoy%d", vi))
		binDir, work, home := filepath.Join(dir, "bin"), filepath.Join(dir, "parent", "work"), filepath.Join(dir, "home")
		for _, d := range []string{binDir, work, home, filepath.Join(work, "sub"), filepath.Join(work, "conf")} {
			os.MkdirAll(d, 0o755)
		}
		sb := filepath.Join(binDir, "sandbox")
		copyFile(sb, sandbox)
		permissive := "seccomp:\n  default_action: allow\n  syscalls:\n  - action: allow\n    names:\n    - getppid\n"
		for _, d := range []string{binDir, home, filepath.Join(dir, "parent"), filepath.Join(work, "sub"), dir} {
			for _, n := range []string{"seccomp.yml", "strict.yml"} {
				os.WriteFile(filepath.Join(d, n), []byte(permissive), 0o644)
			}
		}
		cp := filepath.Join(work, "case.json")
		writeJSON(cp, probeCase)
		marker := filepath.Join(work, "marker")
		var args []string
		switch variant {
		case "relative-name":
			args = []string{"-policy", "strict.yml", target, "probe", cp}
		case "default-name":
			args = []string{target, "probe", cp}
		case "relative-with-dir":
			args = []string{"-policy", "conf/strict.yml", target, "probe", cp}
		default:
			args = []string{"-policy", "./strict.yml", target, "probe", cp}
		}
		cwd, pwd := work, ""
		if strings.HasPrefix(variant, "dotdot-") {
			deep := filepath.Join(dir, "elsewhere", "deep")
			os.MkdirAll(deep, 0o755)
			os.Symlink(deep, filepath.Join(work, "link"))
			os.WriteFile(filepath.Join(work, "strict.yml"), []byte(permissive), 0o644) // where the cleaned-up text leads; the name leads to elsewhere/strict.yml, which does not exist
			if variant == "dotdot-behind-a-symlinked-directory" {
				args = []string{"-policy", "link/../strict.yml", target, "probe", cp}
			} else {
				args = []string{"-policy", "../strict.yml", target, "probe", cp}
				cwd, pwd = filepath.Join(work, "link"), filepath.Join(work, "link")
			}
		}
		os.Remove(marker)
		cmd := exec.Command(sb, args...)
		cmd.Dir = cwd
		cmd.Env = append(os.Environ(), "VERIF_MARKER="+marker, "HOME="+home)
		if pwd != "" {
			cmd.Env = append(cmd.Env, "PWD="+pwd)
		}
		out, err := cmd.CombinedOutput()
		_, merr := os.Stat(marker)
		run.Count("fault_runs", 1)
		byKind["policy-file-missing-with-decoys:"+variant]++
		distinct["fault:decoy:"+variant] = true
		if merr == nil || err == nil {
			run.Violation("missing-policy-found-elsewhere:"+variant, fmt.Sprintf("the policy file named by %v does not exist in the working directory; files of the same name next to the executable, in $HOME, in the parent and in a sub-directory must not be used: target started=%v exit error=%v output=%s", args[:min(2, len(args))], merr == nil, err, tail(string(out), 200)),
				map[string]any{"check": "C15", "variant": variant, "args": args})
		}
		os.RemoveAll(dir)
	}
	// control for the unprivileged kinds: the same caller with no_new_privs runs the target under the filter
	{
		dir := filepath.Join(root, "unpriv-control")
		os.MkdirAll(dir, 0o755)
		os.Chmod(dir, 0o777)
		pp := filepath.Join(dir, "policy.yml")
		os.WriteFile(pp, []byte(validYAML), 0o644)
		cp := filepath.Join(dir, "case.json")
		writeJSON(cp, probeCase)
		os.Chmod(cp, 0o644)
		res, err := runSandbox(dir, []string{"/usr/bin/setpriv", "--reuid=65534", "--regid=65534", "--clear-groups"}, sandbox, []string{"-policy", pp, "-no-new-privs=true", target, "probe", cp}, filepath.Join(dir, "marker"))
		if err != nil || res.timedOut || res.exit != 0 || !res.marker {
			run.Inconclusive(fmt.Sprintf("control: an unprivileged sandbox run with -no-new-privs=true did not run its target (%v, %+v): the unprivileged fault kinds prove nothing", err, res))
		} else {
			run.Count("unprivileged_control_runs", 1)
		}
		os.RemoveAll(dir)
	}
	// target missing: exec error -> non-zero exit
	{
		dir := filepath.Join(root, "missing-target")
		os.MkdirAll(dir, 0o755)
		pp := filepath.Join(dir, "policy.yml")
		os.WriteFile(pp, []byte(validYAML), 0o644)
		res, err := runSandbox(dir, nil, sandbox, []string{"-policy", pp, filepath.Join(dir, "no-such-program")}, filepath.Join(dir, "marker"))
		if err == nil && res.exit == 0 {
			run.Violation("exit-0-target-missing", "the target program does not exist but the sandbox command exits 0", map[string]any{"check": "C15"})
		}
		res, err = runSandbox(dir, nil, sandbox, []string{"-policy", pp}, filepath.Join(dir, "marker"))
		if err == nil && res.exit == 0 {
			run.Violation("exit-0-no-command", "no command given but the sandbox command exits 0", map[string]any{"check": "C15"})
		}
		run.Count("fault_runs", 2)
		byKind["target-missing"] += 2
		os.RemoveAll(dir)
	}

	// valid policies: the target observes exactly the policy's decisions
	n := run.N(200, 3000)
	vlib.Parallel(n, func(i int) {
		r := caseRand(run, 1+i)
		style := []int{0, 0, 1, 2}[i%4]
		p := genProbePolicy(r, t, probes, style, false, false)
		// the sandbox's own needs (fork/exec of the target) must stay allowed: generated policies only decide about probes
		for gi := range p.Syscalls { // the documented actions only (a YAML file cannot express other words)
			if _, ok := actionText[uint32(p.Syscalls[gi].Action)]; !ok {
				p.Syscalls[gi].Action = vlib.RetErrno
			}
		}
		if i%16 == 5 {
			// a policy that denies nothing (allow and log only) is a policy like any other: its filter is installed, the target
			// runs under it
			p.DefaultAction = vlib.RetAllow
			for gi := range p.Syscalls {
				p.Syscalls[gi].Action = []seccomp.Action{vlib.RetAllow, vlib.RetLog}[(i/16+gi)%2]
				if (i/16)%2 == 0 {
					p.Syscalls[gi].Action = vlib.RetAllow
				}
			}
			run.Count("valid_runs_with_a_policy_that_denies_nothing", 1)
		}
		spec := vlib.SpecOf(p, "x86_64")
		comp := vlib.Compile(spec.Policy(), t)
		if !comp.OK() || len(comp.Raw) > 4096 {
			return
		}
		ref := vlib.NewRef(spec.Policy(), t)
		dir := filepath.Join(root, fmt.Sprintf("v%d", i))
		os.MkdirAll(dir, 0o755)
		defer os.RemoveAll(dir)
		pp := filepath.Join(dir, "seccomp.yml")
		if i%4 == 3 { // the policy file may have any legal name
			pp = filepath.Join(dir, []string{"my policy.yml", "política-ポリシー.yaml", "-p.yml", "a;b&c.yml", "POLICY.YML", "no-extension"}[(i/4)%6])
		}
		// every fifth policy gets a final group of its own that decides about a probe no
		// earlier group mentions, and the file is padded with comment lines in front of
		// that group to a size from {5 kB, 66 kB, 200 kB, 1 MiB}: the end of a large file
		// must be installed as well
		padTo := 0
		if i%5 == 3 {
			used := map[string]bool{}
			for _, g := range spec.Groups {
				for _, n := range g.Names {
					used[n] = true
				}
				for _, e := range g.With {
					used[e.Name] = true
				}
			}
			for _, n := range probes {
				if !used[n] {
					spec.Groups = append(spec.Groups, vlib.GroupSpec{Names: []string{n}, Action: vlib.RetErrno})
					p = spec.Policy()
					comp = vlib.Compile(spec.Policy(), t)
					ref = vlib.NewRef(spec.Policy(), t)
					padTo = bigSizes[(i/5)%len(bigSizes)]
					break
				}
			}
		}
		yamlText := handYAML(r, spec)
		if padTo > 0 {
			k := strings.LastIndex(yamlText, "  - action:")
			yamlText = yamlText[:k] + pad(padTo) + yamlText[k:]
			run.Count("valid_runs_with_padded_large_file", 1)
		}
		if i%8 == 7 && padTo == 0 {
			// the marshalled JSON form of the policy (JSON is YAML) under a name that says so
			type wrapper struct {
				Seccomp *seccomp.Policy `json:"seccomp"`
			}
			if jb, err := json.Marshal(wrapper{spec.Policy()}); err == nil {
				pp = filepath.Join(dir, []string{"policy.json", "P.JSON", "seccomp.yml.json", "profile.Json"}[(i/8)%4])
				yamlText = string(jb)
				run.Count("valid_runs_with_json_text_in_a_json_named_file", 1)
			}
		}
		os.WriteFile(pp, []byte(yamlText), 0o644)
		cc := &vlib.ChildCase{}
		for _, pr := range probeEventsFor(r, p, t, probes, false, 120) {
			w, _ := ref.Decide(vlib.ProbeEvent("amd64", pr, o))
			if vlib.ExpectWord(w).Class != vlib.OutSigsys {
				cc.Probes = append(cc.Probes, pr)
			}
		}
		cp := filepath.Join(dir, "case.json")
		writeJSON(cp, cc)
		marker := filepath.Join(dir, "marker")
		var args []string
		nnp := i%3 != 0
		switch i % 4 {
		case 0:
			args = []string{"-policy", pp, fmt.Sprintf("-no-new-privs=%v", nnp), target, "probe", cp}
		case 1:
			args = []string{"-policy=" + pp, fmt.Sprintf("-no-new-privs=%v", nnp), "--", target, "probe", cp, "extra", "--args", "-x"}
		case 2: // default policy file name in the working directory
			args = []string{fmt.Sprintf("-no-new-privs=%v", nnp), target, "probe", cp}
		default:
			args = []string{"-policy", pp, target, "probe", cp}
		}
		res, err := runSandbox(dir, nil, sandbox, args, marker)
		desc := fmt.Sprintf("valid case %d: style=%d groups=%d program=%d instructions no-new-privs=%v args-variant=%d", i, style, len(spec.Groups), len(comp.Raw), nnp, i%4)
		if err != nil || res.timedOut {
			run.SoftInconclusive("sandbox run failed: " + desc)
			return
		}
		replay := map[string]any{"check": "C15", "desc": desc, "policy": spec, "yaml_head": yamlText[:min(600, len(yamlText))], "args": args, "exit": res.exit, "stderr": tail(res.stderr, 500)}
		if res.exit != 0 || !res.marker {
			run.Violation("valid-policy-target-not-run", fmt.Sprintf("%s: exit=%d target started=%v: %s", desc, res.exit, res.marker, tail(res.stderr, 300)), replay)
			return
		}
		run.Count("valid_runs", 1)
		lines := parseChildLines(res.stdout)
		// the target must be filtered from its very first instruction on
		if st := lines[0]; st["ev"] == "start" {
			if b, _ := st["before"].(map[string]any); b == nil || fmt.Sprint(b["Seccomp"]) != "2" {
				run.Violation("target-not-filtered", desc+": the target's /proc status does not show Seccomp: 2", replay)
				return
			}
			if b, _ := st["before"].(map[string]any); nnp && fmt.Sprint(b["NoNewPrivs"]) != "1" {
				run.Count("target_without_nnp_not_judged_here", 1) // C11's subject
			}
		}
		post := map[int]uint64{}
		for _, l := range lines {
			if l["ev"] == "post" {
				post[int(jsonU64(l["i"]))] = jsonU64(l["errno"])
			}
		}
		for pi, pr := range cc.Probes {
			w, _ := ref.Decide(vlib.ProbeEvent("amd64", pr, o))
			exp := vlib.ExpectWord(w)
			wantErrno := uint64(0)
			if exp.Class == vlib.OutErrno {
				wantErrno = uint64(exp.Errno)
			}
			got, ok := post[pi]
			run.Count("probes_compared_in_targets", 1)
			if !ok || got != wantErrno {
				run.Violation("target-sees-other-decision", fmt.Sprintf("%s: probe %d %+v in the target: policy says %#x (errno %d), the target observed errno %d (present=%v)", desc, pi, pr, w, wantErrno, got, ok), replay)
				return
			}
		}
		mu.Lock()
		distinct[fmt.Sprint("valid:", style, len(spec.Groups), nnp, i%4)] = true
		mu.Unlock()
		if i < 2 {
			run.Sample(2, map[string]any{"desc": desc, "args": args[:min(len(args), 4)], "probes": len(cc.Probes)})
		}
	})
	// the shipped example policy: its second group must be enforced too
	c15Shipped(run, sandbox, target, root, t)
	run.Set("fault_runs_by_kind", byKind)
	run.Sample(3, map[string]any{"fault_kinds": len(faults), "example": "unknown-syscall: names: [getppid, no_such_syscall] -> exit != 0, marker absent"})
	run.Assume("the target leaves a marker file as its first action; kernel refusals are a real oversize policy and strace fault injection on seccomp(2)/prctl(2)",
		"valid policies only decide about probe syscalls so the sandbox's own fork/exec keeps working; lethal actions are not used for targets")
	if run.Violations() == 0 {
		run.Require("fault_runs", int64(len(faults)))
		run.Require("valid_runs", int64(n*8/10))
		run.Require("probes_compared_in_targets", 500)
		run.Require("valid_runs_with_padded_large_file", 5)
	}
	run.Finish(run.Counter("fault_runs")+run.Counter("valid_runs"), int64(len(distinct)),
		"the built cmd/sandbox with a probing target: every invalid-file kind (missing, directory, empty, not YAML, unknown action/operation/syscall, bad argument index, duplicate, no groups; the same defects behind 5 kB..1 MiB of comment padding), kernel refusal by an oversize policy and by strace-injected failures of seccomp(2) (EINVAL, EACCES, ENOSYS, positive thread id) and prctl(2), missing target; valid PRNG policies rendered to YAML with -no-new-privs on/off and argv variants, probe outcomes inside the exec'ed target compared with the reference semantics; distinct = fault kinds + (style, groups, nnp, argv variant)")
}

// c15Shipped runs cmd/sandbox/seccomp.yml: connect(2) and clone(CLONE_NEWUSER unset) must be denied.
func c15Shipped(run *vlib.Run, sandbox, target, root string, t *vlib.Target) {
	dir := filepath.Join(root, "shipped")
	os.MkdirAll(dir, 0o755)
	defer os.RemoveAll(dir)
	cc := &vlib.ChildCase{Probes: []vlib.Probe{
		{Kind: "syscall", NR: uint64(t.Num["listen"]), Args: [6]uint64{^uint64(0) >> 1, 0}}, // group 1: errno (bad fd otherwise EBADF)
		{Kind: "syscall", NR: uint64(t.Num["getppid"])},                                     // unlisted: allowed
	}}
	_ = seccomp.ActionAllow
	cp := filepath.Join(dir, "case.json")
	writeJSON(cp, cc)
	res, err := runSandbox(dir, nil, sandbox, []string{"-policy", filepath.Join(vlib.RepoDir(), "cmd/sandbox/seccomp.yml"), target, "probe", cp}, filepath.Join(dir, "marker"))
	if err != nil || res.timedOut {
		run.Inconclusive("shipped policy run failed")
		return
	}
	if res.exit != 0 {
		// the shipped policy denies clone without CLONE_NEWUSER; if the Go runtime needs such a clone to start the target, this is expected
		run.Count("shipped_policy_target_not_started", 1)
		return
	}
	post := map[int]uint64{}
	for _, l := range parseChildLines(res.stdout) {
		if l["ev"] == "post" {
			post[int(jsonU64(l["i"]))] = jsonU64(l["errno"])
		}
	}
	run.Count("shipped_policy_runs", 1)
	if post[0] != vlib.EPERM {
		run.Violation("shipped-policy-not-enforced", fmt.Sprintf("cmd/sandbox/seccomp.yml: listen(2) in the target returns errno %d, the policy says EPERM", post[0]), map[string]any{"check": "C15"})
	}
}
