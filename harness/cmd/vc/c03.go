package main

import (
	"fmt"
	"math/rand"
	"strings"
	"sync"

	seccomp "github.com/elastic/go-seccomp-bpf"

	"verif/harness/vlib"
)

func init() { checks["C03"] = c03 }

func c03Catalogue(ts []*vlib.Target) []struct {
	t *vlib.Target
	p *seccomp.Policy
} {
	type tp = struct {
		t *vlib.Target
		p *seccomp.Policy
	}
	var out []tp
	cond := func(arg uint32, op seccomp.Operation, v uint64) seccomp.Condition {
		return seccomp.Condition{Argument: arg, Operation: op, Value: v}
	}
	for _, t := range ts {
		n := t.Names
		nr := func(i int) uint64 { return uint64(t.Num[n[i]]) }
		// a failed conditional entry followed by an unconditional one whose
		// number equals what the argument words hold (accumulator leak)
		out = append(out, tp{t, &seccomp.Policy{DefaultAction: vlib.RetAllow, Syscalls: []seccomp.SyscallGroup{{Action: vlib.RetErrno,
			NamesWithCondtions: []seccomp.NameWithConditions{
				{Name: n[10], Conditions: seccomp.ArgumentConditions{cond(0, "Equal", 1<<40)}},
				{Name: n[11], Conditions: seccomp.ArgumentConditions{cond(1, "Equal", 7)}}}}}}})
		out = append(out, tp{t, &seccomp.Policy{DefaultAction: vlib.RetAllow, Syscalls: []seccomp.SyscallGroup{
			{Action: vlib.RetErrno, NamesWithCondtions: []seccomp.NameWithConditions{{Name: n[10], Conditions: seccomp.ArgumentConditions{cond(0, "Equal", 1<<40)}}}},
			{Action: vlib.RetKillProcess, Names: []string{n[11], n[12]}}}}})
		// same syscall conditional in two groups, unconditional in a third
		out = append(out, tp{t, &seccomp.Policy{DefaultAction: vlib.RetKillProcess, Syscalls: []seccomp.SyscallGroup{
			{Action: vlib.RetErrno, NamesWithCondtions: []seccomp.NameWithConditions{{Name: n[20], Conditions: seccomp.ArgumentConditions{cond(2, "GreaterThan", 100)}}}},
			{Action: vlib.RetTrap, NamesWithCondtions: []seccomp.NameWithConditions{{Name: n[20], Conditions: seccomp.ArgumentConditions{cond(2, "GreaterThan", 50), cond(3, "BitsSet", 6)}}}},
			{Action: vlib.RetAllow, Names: []string{n[20], n[21]}}}}})
		// OR of lists, separated by another syscall's entry; repeated argument in a list
		out = append(out, tp{t, &seccomp.Policy{DefaultAction: vlib.RetAllow, Syscalls: []seccomp.SyscallGroup{{Action: vlib.RetErrno,
			Names: []string{n[33]},
			NamesWithCondtions: []seccomp.NameWithConditions{
				{Name: n[30], Conditions: seccomp.ArgumentConditions{cond(0, "GreaterOrEqual", 10), cond(0, "LessThan", 20)}},
				{Name: n[31], Conditions: seccomp.ArgumentConditions{cond(5, "BitsNotSet", 0xff00000000)}},
				{Name: n[30], Conditions: seccomp.ArgumentConditions{cond(0, "Equal", nr(31))}},
				{Name: n[30], Conditions: seccomp.ArgumentConditions{cond(1, "NotEqual", 0), cond(2, "LessOrEqual", nr(33))}}}}}}})
		// the policy-level witness of the long-jump defect: names + 20 six-condition lists on two syscalls
		var with []seccomp.NameWithConditions
		for _, name := range []string{n[40], n[41]} {
			for i := uint64(0); i < 20; i++ {
				var cs seccomp.ArgumentConditions
				for a := uint32(0); a < 6; a++ {
					cs = append(cs, cond(a, "Equal", i*6+uint64(a)))
				}
				with = append(with, seccomp.NameWithConditions{Name: name, Conditions: cs})
			}
		}
		out = append(out, tp{t, &seccomp.Policy{DefaultAction: vlib.RetAllow, Syscalls: []seccomp.SyscallGroup{{Action: vlib.RetKillThread, Names: []string{n[42]}, NamesWithCondtions: with}}}})
		out = append(out, tp{t, &seccomp.Policy{DefaultAction: vlib.RetAllow, Syscalls: []seccomp.SyscallGroup{{Action: vlib.RetKillThread, NamesWithCondtions: with}}}})
	}
	return out
}

// c03Events builds the directed event set of a policy.
func c03Events(r *rand.Rand, p *seccomp.Policy, t *vlib.Target, nrs []uint32) []vlib.Event {
	return c03EventsRef(r, p, t, nrs, nil)
}

// c03EventsRef: with a reference the satisfying event of a list is re-drawn (up to 8 times) until the reference
// says that this very list decides, so that lists behind other satisfiable lists of the same syscall are reached too.
func c03EventsRef(r *rand.Rand, p *seccomp.Policy, t *vlib.Target, nrs []uint32, ref *vlib.Ref) []vlib.Event {
	pool := vlib.AdversarialPool(p, t)
	var evs []vlib.Event
	listed := vlib.PolicyNumbers(p, t)
	others := func(self uint32) []uint32 {
		var o []uint32
		for k := 0; k < 3 && len(listed) > 0; k++ {
			o = append(o, listed[r.Intn(len(listed))])
		}
		o = append(o, self+1, nrs[r.Intn(len(nrs))])
		return o
	}
	budget := 1500
	if n := 0; true {
		for _, g := range p.Syscalls {
			n += len(g.NamesWithCondtions)
		}
		if n*40 > budget { // long condition lists: every list gets its directed events
			budget = n * 40
		}
		if budget > 30000 {
			budget = 30000
		}
	}
	for gi, g := range p.Syscalls {
		seenName := map[string]int{}
		earlier := map[string][][]seccomp.Condition{} // earlier lists of the same syscall in this group
		for _, nc := range g.NamesWithCondtions {
			li := seenName[nc.Name]
			seenName[nc.Name]++
			avoid := earlier[nc.Name]
			earlier[nc.Name] = append(earlier[nc.Name], []seccomp.Condition(nc.Conditions))
			if len(evs) > budget {
				break
			}
			nr := t.Num[nc.Name]
			var argsets [][6]uint64
			for try := 0; try < 8; try++ {
				a, ok := vlib.SatisfyAvoiding(r, nc.Conditions, avoid, vlib.FillArgs(r, pool))
				if !ok {
					a, ok = vlib.Satisfy(r, nc.Conditions, vlib.FillArgs(r, pool))
				}
				if !ok {
					break
				}
				if ref == nil {
					argsets = append(argsets, a)
					break
				}
				_, why := ref.Decide(vlib.Event{NR: nr, Arch: t.ID, Args: a})
				if (why.Kind == vlib.WhyList && why.Group == gi && why.List == li) || try == 7 {
					argsets = append(argsets, a)
					break
				}
			}
			for k := range nc.Conditions {
				if a, ok := vlib.FailExactly(r, nc.Conditions, k, vlib.FillArgs(r, pool)); ok {
					argsets = append(argsets, a)
				}
			}
			// every branch of every condition's lowering, with the rest of the list in its matching state
			if len(argsets) > 0 && len(evs) < budget {
				sat := argsets[0]
				for k := range nc.Conditions {
					for _, a := range vlib.CondNeighbourhood(nc.Conditions, k, sat) {
						evs = append(evs, vlib.Event{NR: nr, Arch: t.ID, Args: a})
					}
				}
			}
			for _, a := range argsets {
				evs = append(evs, vlib.Event{NR: nr, Arch: t.ID, IP: pool[r.Intn(len(pool))], Args: a})
				// leak probes: the same argument vector under other numbers
				for _, o := range others(nr) {
					evs = append(evs, vlib.Event{NR: o, Arch: t.ID, Args: a})
				}
			}
		}
	}
	// all-lists-fail / random events under every conditional number and a few others
	for li, nr := range listed {
		reps := 3
		if len(evs) > 2*budget || li > 400 {
			reps = 1 // every listed number gets at least one event
		}
		for k := 0; k < reps; k++ {
			evs = append(evs, vlib.Event{NR: nr, Arch: t.ID, IP: pool[r.Intn(len(pool))], Args: vlib.FillArgs(r, pool)})
		}
	}
	for k := 0; k < 200; k++ {
		evs = append(evs, vlib.Event{NR: nrs[r.Intn(len(nrs))], Arch: t.ID, Args: vlib.FillArgs(r, pool)})
	}
	return evs
}

func c03() {
	run := vlib.NewRun("C03", "translation_validation")
	_, ts := mustTargets(run)
	cat := c03Catalogue(ts)
	nRandom := run.N(3000, 40000)
	total := len(cat) + nRandom

	var mu sync.Mutex
	decided := map[string]int64{}
	shapes := map[string]bool{}
	maxLen := 0
	var edgesGot, edgesTotal int64
	var uncoveredSample []int

	vlib.Parallel(total, func(i int) {
		r := caseRand(run, i)
		var t *vlib.Target
		var p *seccomp.Policy
		if i < len(cat) {
			t, p = cat[i].t, cat[i].p
		} else {
			t = ts[i%len(ts)]
			mp := vlib.DefaultMixed()
			if i%5 == 0 { // push sizes past 255 and 1000 instructions
				mp.LongListChance, mp.BigNamesChance = 2, 3
			}
			p = vlib.GenMixed(r, t, mp)
			if i%7 == 4 {
				run.Count("policies_with_data_bits_in_group_actions", 1)
				vlib.WithDataBits(r, p)
			}
		}
		// non-canonical spellings of an operation (other letter case, surrounding white space): such a policy may be
		// rejected; if it is accepted, the condition must count with the meaning of the documented name
		canon := vlib.SpecOf(p, t.Name)
		if i >= len(cat) && i%6 == 5 {
			var where [][3]int
			for gi, g := range p.Syscalls {
				for ei, nc := range g.NamesWithCondtions {
					for ci := range nc.Conditions {
						where = append(where, [3]int{gi, ei, ci})
					}
				}
			}
			if len(where) > 0 {
				w := where[r.Intn(len(where))]
				op := string(p.Syscalls[w[0]].NamesWithCondtions[w[1]].Conditions[w[2]].Operation)
				variant := []string{strings.ToLower(op), strings.ToUpper(op), " " + op, op + "\n", op + " ", "\t" + op + "\r\n"}[r.Intn(6)]
				p.Syscalls[w[0]].NamesWithCondtions[w[1]].Conditions[w[2]].Operation = seccomp.Operation(variant)
				run.Count("policies_with_noncanonical_operation_spelling", 1)
			}
		}
		spec := vlib.SpecOf(p, t.Name)
		if i >= len(cat) && i%8 == 3 {
			vlib.ShareBackingArray(p) // same policy value; the groups' lists are sub-slices of one array
			run.Count("policies_whose_groups_share_one_array", 1)
		}
		c := vlib.Compile(p, t)
		run.Count("policies", 1)
		if !c.OK() {
			run.Count("not_accepted", 1)
			return
		}
		run.Count("programs", 1)
		if fmt.Sprint(spec) != fmt.Sprint(canon) {
			run.Count("noncanonical_operation_spelling_accepted", 1)
		}
		ref := vlib.NewRef(canon.Policy(), t)
		nrs := vlib.NrClasses(c, ref)
		var nrsOK []uint32
		for _, nr := range nrs {
			if !(t.X32Guard && nr >= vlib.X32Bit) {
				nrsOK = append(nrsOK, nr)
			}
		}
		pc := canon.Policy() // events are derived from the canonical spelling
		evs := c03EventsRef(r, pc, t, nrsOK, ref)
		pool0 := vlib.AdversarialPool(pc, t)
		cov := vlib.NewCov(len(c.Raw))
		local := map[string]int64{}
		for _, e := range evs {
			if t.X32Guard && e.NR >= vlib.X32Bit {
				continue
			}
			w := e.Words(false)
			tr, err := c.RunBoth(&w, cov, false)
			want, why := ref.Decide(e)
			key := ""
			switch why.Kind {
			case vlib.WhyUncond:
				key = "unconditional_entry"
				if why.FailedCond {
					key = "unconditional_entry_after_failed_conditional"
				}
			case vlib.WhyList:
				key = "first_list"
				if why.List >= 1 {
					key = "list_ge2"
				}
				if why.FailedCond {
					key = "list_in_later_group_after_failed_conditional"
				}
			case vlib.WhyDefault:
				key = "default"
				if why.FailedCond {
					key = "default_after_failed_conditional"
				}
			}
			local[key]++
			if err != nil || tr.Ret != want {
				got := fmt.Sprintf("%#x", tr.Ret)
				if err != nil {
					got = "fault: " + err.Error()
				}
				run.Violation("expected-"+key, fmt.Sprintf("arch %s, program of %d instructions: event %v: filter gives %s, policy says %#x (%s, group %d)", t.Name, len(c.Raw), e, got, want, key, why.Group),
					map[string]any{"check": "C03", "policy": spec, "event": e, "expected": want, "observed": got, "case": i})
				return
			}
		}
		run.Count("events", int64(len(evs)))
		// path-directed phase: for every branch edge the directed events did not execute, search a path to it, solve its
		// word constraints and judge the resulting event as well
		if len(c.Raw) <= run.N(500, 1500) && (!run.Thorough() || i%3 == 0) {
			pool32 := make([]uint32, 0, 2*len(pool0))
			for _, v := range pool0 {
				pool32 = append(pool32, uint32(v), uint32(v>>32))
			}
			fill := func(word int) []uint32 {
				if word == 1 {
					return []uint32{t.ID}
				}
				k := r.Intn(len(pool32))
				return []uint32{pool32[k], pool32[(k+7)%len(pool32)], pool32[(k+13)%len(pool32)]}
			}
			failed := false
			ps := vlib.CoverEdges(r, c.Raw, cov, fill, run.N(40000, 300000), func(w [16]uint32) {
				e := vlib.EventFromWords(w)
				tr, err := c.RunBoth(&w, cov, false)
				if e.Arch != t.ID || (t.X32Guard && e.NR >= vlib.X32Bit) {
					run.Count("path_events_foreign_or_x32_not_judged_here", 1)
					return
				}
				want, why := ref.Decide(e)
				run.Count("path_directed_events", 1)
				if (err != nil || tr.Ret != want) && !failed {
					failed = true
					got := fmt.Sprintf("%#x", tr.Ret)
					if err != nil {
						got = "fault: " + err.Error()
					}
					run.Violation("path-directed-event-disagrees", fmt.Sprintf("arch %s, program of %d instructions: event %v (generated to reach an unexecuted branch): filter gives %s, policy says %#x (kind %d, group %d)", t.Name, len(c.Raw), e, got, want, why.Kind, why.Group),
						map[string]any{"check": "C03", "policy": spec, "event": e, "expected": want, "observed": got, "case": i})
				}
			})
			run.Count("path_phase_programs", 1)
			run.Count("path_phase_edges_total", int64(ps.Edges))
			run.Count("path_phase_edges_covered", int64(ps.Covered))
			run.Count("path_phase_edges_left_unsolved", int64(ps.Unsolved))
			if ps.StepBudget {
				run.Count("path_phase_budget_exhausted", 1)
			}
			if failed {
				return
			}
		}
		g, tot := cov.Covered(c.Raw)
		lists, conds := 0, 0
		for _, grp := range p.Syscalls {
			lists += len(grp.NamesWithCondtions)
			for _, nc := range grp.NamesWithCondtions {
				conds += len(nc.Conditions)
			}
		}
		mu.Lock()
		for k, v := range local {
			decided[k] += v
		}
		if len(c.Raw) > maxLen {
			maxLen = len(c.Raw)
		}
		if len(c.Raw) > 255 {
			run.Count("programs_over_255", 1)
		}
		if len(c.Raw) > 1000 {
			run.Count("programs_over_1000", 1)
		}
		edgesGot += int64(g)
		edgesTotal += int64(tot)
		shapes[fmt.Sprint(len(p.Syscalls), lists, conds, len(c.Raw))] = true
		if uncoveredSample == nil && g < tot {
			for pc := range c.Raw {
				if cov.Edge[pc] == 0 {
					uncoveredSample = append(uncoveredSample, pc)
				}
			}
		}
		mu.Unlock()
		if lists > 2 && len(p.Syscalls) > 1 {
			run.Sample(3, map[string]any{"policy": spec.Brief(), "program_len": len(c.Raw), "events": len(evs), "first_event": evs[0]})
		}
	})
	for k, v := range decided {
		run.Count("decided:"+k, v)
	}
	run.Set("programs", run.Counter("programs"))
	run.Set("disagreements_checked", run.Counter("events"))
	run.Set("max_program_len", maxLen)
	run.Set("branch_edges_executed", fmt.Sprintf("%d of %d", edgesGot, edgesTotal))
	if len(uncoveredSample) > 20 {
		uncoveredSample = uncoveredSample[:20]
	}
	run.Set("never_executed_pcs_of_one_sample_program", uncoveredSample)
	run.Assume("condition lists are non-empty (an entry without conditions is outside C03/C07)",
		"E1 interpreter semantics (calibrated against the kernel by C08)")
	if run.Violations() == 0 {
		run.Require("programs", 50)
		run.Require("decided:list_ge2", 1)
		run.Require("decided:default_after_failed_conditional", 1)
		run.Require("decided:unconditional_entry_after_failed_conditional", 1)
		run.Require("programs_over_255", 1)
	}
	run.RunSecondaryBuild()
	run.Finish(run.Counter("events"), int64(len(shapes)),
		"policies mixing unconditional and conditional entries (catalogue + PRNG; repeated arguments, same syscall in several groups, 10..30-list entries, programs past 255/1000 instructions); directed events: per list one satisfying event, per condition one failing exactly it, each replayed under other listed/unlisted numbers (leak probes), plus adversarial fills; then a path-directed phase that searches, for every branch edge not yet executed, a path to it, solves the per-word constraints and judges the resulting event too; distinct = distinct (groups, lists, conditions, program length) shapes")
}
