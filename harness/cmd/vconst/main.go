// vconst prints, as JSON, what the package exposes on the build target it
// was compiled for: constants, the behaviour of the loader entry points and
// digests of compiled policies (C19). It is built for linux/amd64, linux/386
// and js/wasm and executed on each.
package main

import (
	"crypto/sha256"
	"encoding/hex"
	"encoding/json"
	"fmt"
	"os"
	"runtime"

	seccomp "github.com/elastic/go-seccomp-bpf"
	"github.com/elastic/go-seccomp-bpf/arch"
)

func digest(p *seccomp.Policy) string {
	ins, err := p.Assemble()
	h := sha256.New()
	if err != nil {
		return "error: " + err.Error()
	}
	for _, in := range ins {
		fmt.Fprintf(h, "%#v;", in)
	}
	return fmt.Sprintf("%d:%s", len(ins), hex.EncodeToString(h.Sum(nil)[:8]))
}

func main() {
	out := map[string]any{"goos": runtime.GOOS, "goarch": runtime.GOARCH}
	consts := map[string]uint64{
		"ActionKillThread": uint64(seccomp.ActionKillThread), "ActionKillProcess": uint64(seccomp.ActionKillProcess), "ActionTrap": uint64(seccomp.ActionTrap),
		"ActionErrno": uint64(seccomp.ActionErrno), "ActionTrace": uint64(seccomp.ActionTrace), "ActionLog": uint64(seccomp.ActionLog), "ActionAllow": uint64(seccomp.ActionAllow),
		"ActionUserNotify": uint64(seccomp.ActionUserNotify), "FilterFlagTSync": uint64(seccomp.FilterFlagTSync), "FilterFlagLog": uint64(seccomp.FilterFlagLog),
	}
	for k, v := range seccomp.VerifConstants() {
		consts[k] = v
	}
	out["constants"] = consts
	out["x32_mask_of_arch_package"] = arch.X32.SeccompMask

	// the same policies compiled for each syscall table (hook H1)
	digests := map[string]string{}
	for _, name := range []string{"x86_64", "i386", "arm", "aarch64"} {
		info, err := arch.GetInfo(name)
		if err != nil {
			digests[name] = "GetInfo error: " + err.Error()
			continue
		}
		mk := func() []*seccomp.Policy {
			return []*seccomp.Policy{
				{DefaultAction: seccomp.ActionAllow, Syscalls: []seccomp.SyscallGroup{{Names: []string{"read", "write", "execve"}, Action: seccomp.ActionErrno}, {Names: []string{"openat"}, Action: seccomp.ActionKillProcess}}},
				{DefaultAction: seccomp.ActionErrno, Syscalls: []seccomp.SyscallGroup{{Action: seccomp.ActionTrap, NamesWithCondtions: []seccomp.NameWithConditions{
					{Name: "read", Conditions: seccomp.ArgumentConditions{{Argument: 1, Operation: seccomp.GreaterThan, Value: 1<<40 + 5}, {Argument: 5, Operation: seccomp.BitsSet, Value: 0xff00ff00ff00ff00}}},
					{Name: "read", Conditions: seccomp.ArgumentConditions{{Argument: 0, Operation: seccomp.NotEqual, Value: 3}}}}},
					{Names: []string{"close", "exit_group"}, Action: seccomp.ActionLog}, {Action: seccomp.ActionTrace}}},
				{DefaultAction: seccomp.ActionKillThread, Syscalls: []seccomp.SyscallGroup{{Action: seccomp.ActionAllow}}},
			}
		}
		// whole table
		var all []string
		for n := range info.SyscallNames {
			all = append(all, n)
		}
		sortStrings(all)
		ps := append(mk(), &seccomp.Policy{DefaultAction: seccomp.ActionKillProcess, Syscalls: []seccomp.SyscallGroup{{Names: all, Action: seccomp.ActionAllow}}})
		d := ""
		for _, p := range ps {
			seccomp.VerifSetArch(p, info)
			d += digest(p) + " "
		}
		digests[name] = d
	}
	out["program_digests"] = digests

	// native behaviour: compile without a forced table
	native := &seccomp.Policy{DefaultAction: seccomp.ActionAllow, Syscalls: []seccomp.SyscallGroup{{Names: []string{"read"}, Action: seccomp.ActionErrno}}}
	ins, err := native.Assemble()
	out["native_assemble_instructions"] = len(ins)
	out["native_assemble_nil_program"] = ins == nil
	out["native_assemble_error"] = errStr(err)
	// a policy whose groups list nothing: on a target without tables this must not compile either
	empty := &seccomp.Policy{DefaultAction: seccomp.ActionAllow, Syscalls: []seccomp.SyscallGroup{{Action: seccomp.ActionErrno}}}
	eins, eerr := empty.Assemble()
	out["native_empty_policy_instructions"] = len(eins)
	out["native_empty_policy_error"] = errStr(eerr)
	_, gerr := arch.GetInfo("")
	out["getinfo_default_error"] = errStr(gerr)

	out["supported"] = seccomp.Supported()
	if runtime.GOOS != "linux" {
		// the stubs must do nothing and report no error
		out["setnonewprivs_error"] = errStr(seccomp.SetNoNewPrivs())
		out["loadfilter_error"] = errStr(seccomp.LoadFilter(seccomp.Filter{NoNewPrivs: true, Flag: seccomp.FilterFlagTSync, Policy: *native}))
		out["loadfilter_invalid_policy_error"] = errStr(seccomp.LoadFilter(seccomp.Filter{Policy: seccomp.Policy{DefaultAction: 12345}}))
		out["loadfilter_plain_error"] = errStr(seccomp.LoadFilter(seccomp.Filter{Policy: *native}))
		out["supported_after_loads"] = seccomp.Supported() // a history: asked again after the loads
	}
	b, _ := json.Marshal(out)
	os.Stdout.Write(append(b, '\n'))
}

func errStr(err error) string {
	if err == nil {
		return ""
	}
	return err.Error()
}

func sortStrings(a []string) {
	for i := 1; i < len(a); i++ {
		for j := i; j > 0 && a[j] < a[j-1]; j-- {
			a[j], a[j-1] = a[j-1], a[j]
		}
	}
}
