//go:build linux

// vstub calls the loader entry points of the package between two marker
// system calls on one locked thread and prints what they returned. C19 builds
// it with a `go build -overlay` in which the package consists of the files
// another build target selects (build constraints removed) and runs it under
// strace: the files that are the loader stubs of a non-Linux target must
// report seccomp as unsupported and issue no system call between the markers.
package main

import (
	"encoding/json"
	"os"
	"runtime"
	"syscall"

	seccomp "github.com/elastic/go-seccomp-bpf"
)

func marker(n uintptr) {
	syscall.RawSyscall(syscall.SYS_GETPRIORITY, 31337, n, 0) // EINVAL; unmistakable in the trace
}

func errStr(err error) string {
	if err == nil {
		return ""
	}
	return err.Error()
}

func main() {
	runtime.LockOSThread()
	// harmless on a real loader: everything is allowed except a syscall nobody uses
	pol := seccomp.Policy{DefaultAction: seccomp.ActionAllow, Syscalls: []seccomp.SyscallGroup{{Names: []string{"vhangup"}, Action: seccomp.ActionErrno}}}
	out := map[string]any{}
	// allocate what the report needs before the window
	var sup bool
	var e1, e2, e3, e4 error
	runtime.GC()
	marker(81)
	sup = seccomp.Supported()
	e1 = seccomp.SetNoNewPrivs()
	e2 = seccomp.LoadFilter(seccomp.Filter{NoNewPrivs: true, Flag: seccomp.FilterFlagTSync, Policy: pol})
	e3 = seccomp.LoadFilter(seccomp.Filter{Policy: pol})
	e4 = seccomp.LoadFilter(seccomp.Filter{Policy: seccomp.Policy{DefaultAction: 12345}})
	supAfter := seccomp.Supported() // a history: asked again after the loads
	marker(82)
	out["supported"] = sup
	out["supported_after_loads"] = supAfter
	out["setnonewprivs_error"] = errStr(e1)
	out["loadfilter_nnp_tsync_error"] = errStr(e2)
	out["loadfilter_plain_error"] = errStr(e3)
	out["loadfilter_invalid_policy_error"] = errStr(e4)
	out["tid"] = syscall.Gettid()
	b, _ := json.Marshal(out)
	os.Stdout.Write(append(b, '\n'))
}
