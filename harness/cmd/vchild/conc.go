package main

import (
	"fmt"
	"hash/fnv"
	"os"
	"runtime"
	"strconv"
	"sync"
	"sync/atomic"
	"syscall"
	"time"

	seccomp "github.com/elastic/go-seccomp-bpf"
)

// conc lets several pinned threads call LoadFilter at the same time and
// records call/return times from one monotonic clock, then reads every
// thread's final state (C09, linearizability).
func conc(c *Case) {
	cc := c.Conc
	if cc == nil {
		fatal("no conc case")
	}
	if cc.GoMaxProcs > 0 {
		runtime.GOMAXPROCS(cc.GoMaxProcs)
	}
	if cc.HookSleepMicros > 0 {
		seccomp.VerifPoint = func(name string) {
			if name == "post-prctl" {
				time.Sleep(time.Duration(cc.HookSleepMicros) * time.Microsecond)
			}
		}
	}
	// compilation next to the loads (C13): golden results first, then a goroutine that compiles for as long as loads run
	var besideStop atomic.Bool
	var besideDone chan struct{}
	var besideRounds atomic.Int64
	var besideMismatch atomic.Value
	if cc.CompileBeside {
		var names []string
		for k := 0; ; k++ {
			if _, ok := cc.Policies[fmt.Sprintf("beside%d", k)]; !ok {
				break
			}
			names = append(names, fmt.Sprintf("beside%d", k))
		}
		digest := func(name string) string {
			spec := cc.Policies[name]
			ins, err := spec.Policy().Assemble()
			h := fnv.New64a()
			fmt.Fprint(h, ins)
			return fmt.Sprintf("%d instructions, error %v, digest %x", len(ins), err, h.Sum64())
		}
		golden := map[string]string{}
		for _, n := range names {
			golden[n] = digest(n)
		}
		besideDone = make(chan struct{})
		go func() {
			defer close(besideDone)
			for !besideStop.Load() {
				for _, n := range names {
					if d := digest(n); d != golden[n] && besideMismatch.Load() == nil {
						besideMismatch.Store(fmt.Sprintf("policy %s: %s before the first load, %s while loads were running", n, golden[n], d))
					}
				}
				besideRounds.Add(1)
			}
		}()
	}
	ws := startWorkers(len(cc.Plans))
	start := time.Now()
	var goFlag atomic.Bool
	type rec struct {
		Thread int    `json:"thread"`
		Tid    int    `json:"tid"`
		ID     int    `json:"id"`
		Flags  uint32 `json:"flags"`
		Call   int64  `json:"call"`
		Return int64  `json:"return"`
		Nil    bool   `json:"nil"`
		Err    string `json:"err"`
	}
	var mu sync.Mutex
	var recs []rec
	var wg sync.WaitGroup
	var sink atomic.Uint64
	for ti, w := range ws {
		wg.Add(1)
		go func(ti int, w *worker) {
			defer wg.Done()
			w.do(func() any {
				for !goFlag.Load() {
					if cc.GoMaxProcs > 0 {
						runtime.Gosched()
					}
				}
				var x uint64
				if ti < len(cc.Jitter) {
					for k := 0; k < cc.Jitter[ti]; k++ {
						x += uint64(k) * 2654435761
					}
				}
				sink.Add(x)
				for _, l := range cc.Plans[ti] {
					spec := cc.Policies[fmt.Sprintf("valid%d", l.ID)]
					f := seccomp.Filter{NoNewPrivs: l.NNP, Flag: seccomp.FilterFlag(l.Flags), Policy: *spec.Policy()}
					t0 := time.Since(start).Nanoseconds()
					err := seccomp.LoadFilter(f)
					t1 := time.Since(start).Nanoseconds()
					mu.Lock()
					recs = append(recs, rec{Thread: ti, Tid: w.tid, ID: l.ID, Flags: l.Flags, Call: t0, Return: t1, Nil: err == nil, Err: errString(err)})
					mu.Unlock()
				}
				return nil
			})
		}(ti, w)
	}
	time.Sleep(2 * time.Millisecond)
	goFlag.Store(true)
	wg.Wait()
	end := time.Since(start).Nanoseconds()
	besideText := ""
	if cc.CompileBeside {
		besideStop.Store(true)
		<-besideDone
		if m := besideMismatch.Load(); m != nil {
			besideText = m.(string)
		}
	}
	// final state of every thread
	final := map[string]any{}
	for ti, w := range ws {
		m := w.do(func() any {
			denied := []int{}
			for k, nr := range cc.Probes {
				_, _, e := syscall.RawSyscall(uintptr(nr), 0, 0, 0)
				if e == 1 {
					denied = append(denied, k)
				}
			}
			return map[string]any{"denied": denied, "status": statusFields(syscall.Gettid())}
		})
		final[strconv.Itoa(ti)] = m
	}
	emit(map[string]any{"ev": "conc", "pid": os.Getpid(), "records": recs, "final": final, "end": end, "beside_rounds": besideRounds.Load(), "beside_mismatch": besideText})
	emit(map[string]any{"ev": "done"})
}
