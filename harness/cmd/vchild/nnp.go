package main

import (
	"os"
	"runtime"
	"sync"
	"syscall"
	"time"

	seccomp "github.com/elastic/go-seccomp-bpf"
)

// forceMigrate pins the current OS thread under another goroutine so that
// the calling goroutine can never be scheduled on it again. It fails (false)
// if the caller is itself locked to its thread.
func forceMigrate() (migrated bool, attempts int) {
	orig := syscall.Gettid()
	for attempts = 1; attempts <= 2000; attempts++ {
		res := make(chan bool)
		go func() {
			runtime.LockOSThread()
			if syscall.Gettid() == orig {
				res <- true
				select {} // keep the thread for ever
			}
			runtime.UnlockOSThread()
			res <- false
		}()
		if <-res {
			return syscall.Gettid() != orig, attempts
		}
	}
	return false, attempts - 1
}

func init() {
	if os.Getenv("VCHILD_LOCK_MAIN") != "" {
		runtime.LockOSThread() // in init: the main goroutine stays on the main thread
	}
}

// nnp runs one load with a schedule forced between the prctl and the
// seccomp call (hook H3) and reports thread ids and state (C11).
func nnp(c *Case) {
	nc := c.NNPCase
	if nc == nil {
		fatal("no nnp case")
	}
	if nc.GoMaxProcs > 0 {
		runtime.GOMAXPROCS(nc.GoMaxProcs)
	}
	hookInstall()
	startBusy := func() {
		if nc.Mode != "busy" {
			return
		}
		// CPU-bound goroutines compete for the Ps while the judged load runs: natural preemption instead of a forced one
		for i := 0; i < runtime.GOMAXPROCS(0)+2; i++ {
			go func() {
				x := 0
				for {
					x++
				}
			}()
		}
	}
	if !nc.PresetOnMain {
		startBusy()
	}
	// threads that exist before the load and do not carry the bit
	var wg sync.WaitGroup
	for i := 0; i < 8; i++ {
		wg.Add(1)
		go func() {
			runtime.LockOSThread()
			time.Sleep(20 * time.Millisecond)
			runtime.UnlockOSThread()
			wg.Done()
		}()
	}
	wg.Wait()
	judging := true
	var hookTidIn, hookTidOut, attempts int
	var migrated bool
	hookCalls := 0
	seccomp.VerifPoint = func(name string) {
		if name != "post-prctl" || !judging {
			return
		}
		hookCalls++
		hookTidIn = syscall.Gettid()
		switch nc.Mode {
		case "busy":
			for i := 0; i < 10; i++ {
				runtime.Gosched()
			}
			time.Sleep(3 * time.Millisecond)
		case "gosched":
			var w sync.WaitGroup
			for i := 0; i < 64; i++ {
				w.Add(1)
				go func() {
					for k := 0; k < 200; k++ {
						runtime.Gosched()
					}
					w.Done()
				}()
			}
			for i := 0; i < 500; i++ {
				runtime.Gosched()
			}
			w.Wait()
			time.Sleep(time.Millisecond)
		case "migrate":
			migrated, attempts = forceMigrate()
		}
		hookTidOut = syscall.Gettid()
	}
	// a library that tries the system call a second time within one load is exposed to the schedule again at that point
	judgedInstalls := 0
	baseInstall := seccomp.VerifInstall
	seccomp.VerifInstall = func(op uintptr, flags uint32, prog []syscall.SockFilter) {
		baseInstall(op, flags, prog)
		if !judging {
			return
		}
		judgedInstalls++
		if judgedInstalls < 2 {
			return
		}
		t0 := syscall.Gettid()
		mig, att := forceMigrate() // refused if the goroutine is locked to its thread, as it has to be between the steps of a load
		emit(map[string]any{"ev": "second_install", "tid_in": t0, "tid_out": syscall.Gettid(), "migrated": mig, "attempts": att})
	}
	outerErr := ""
	if nc.Prior == "outer-einval-on-log-flag" {
		// an environment: every thread of the process is under a filter that answers EINVAL to an installation that asks
		// for the log flag (as a kernel before 4.14 does)
		judging = false
		outerErr = errString(seccomp.LoadFilter(seccomp.Filter{Flag: seccomp.FilterFlagTSync, Policy: seccomp.Policy{DefaultAction: seccomp.ActionAllow,
			Syscalls: []seccomp.SyscallGroup{{NamesWithCondtions: []seccomp.NameWithConditions{{Name: "seccomp", Conditions: seccomp.ArgumentConditions{
				{Argument: 0, Operation: seccomp.Equal, Value: 1}, {Argument: 1, Operation: seccomp.BitsSet, Value: 2}}}}, Action: seccomp.ActionErrno | 22}}}}))
		judging = true
		instMu.Lock()
		installs = nil
		instMu.Unlock()
	}
	emit(map[string]any{"ev": "start", "pid": os.Getpid(), "uid": os.Getuid(), "tid": syscall.Gettid(), "before": snapshot(), "outer_err": outerErr})
	f := buildFilter(c)
	if nc.CallerLocked {
		runtime.LockOSThread()
	}
	var tidBefore, tidAfter int
	var err error
	var selfStatus map[string]string
	var probes []uint64
	if nc.PresetOnMain {
		// the worker thread exists before the bit is set on the main thread, so it does not inherit it
		ws := startWorkers(2)
		var presetErr error
		judging = false
		switch nc.Prior {
		case "declined-einval":
			presetErr = seccomp.LoadFilter(seccomp.Filter{NoNewPrivs: true, Flag: seccomp.FilterFlagTSync | 1<<7, Policy: f.Policy})
		case "declined-divergent":
			ws[1].do(func() any {
				return seccomp.LoadFilter(seccomp.Filter{NoNewPrivs: true, Policy: seccomp.Policy{DefaultAction: seccomp.ActionAllow,
					Syscalls: []seccomp.SyscallGroup{{Names: []string{"getpgrp"}, Action: seccomp.ActionErrno}}}})
			})
			presetErr = seccomp.LoadFilter(seccomp.Filter{NoNewPrivs: true, Flag: seccomp.FilterFlagTSync, Policy: f.Policy})
		default:
			presetErr = seccomp.SetNoNewPrivs() // on the main thread (this goroutine is locked to it from init)
		}
		judging = true
		startBusy()
		instMu.Lock()
		installs = nil
		instMu.Unlock()
		mainTid := syscall.Gettid()
		ws[0].do(func() any {
			tidBefore = syscall.Gettid()
			err = seccomp.LoadFilter(f)
			tidAfter = syscall.Gettid()
			selfStatus = statusFields(syscall.Gettid())
			for _, p := range c.Probes {
				_, e := doProbe(p)
				probes = append(probes, e)
			}
			return nil
		})
		instMu.Lock()
		ins := append([]installed(nil), installs...)
		instMu.Unlock()
		emit(map[string]any{"ev": "loaded", "ok": err == nil, "err": errString(err), "tid_before": tidBefore, "tid_after": tidAfter, "main_tid": mainTid, "is_main_pid": mainTid == os.Getpid(),
			"preset_err": errString(presetErr), "prior": nc.Prior, "other_worker_tid": ws[1].tid, "hook_calls": hookCalls, "hook_tid_in": hookTidIn, "hook_tid_out": hookTidOut, "migrated": migrated, "attempts": attempts,
			"installs": ins, "after": snapshot(), "self": selfStatus, "probe_errnos": probes})
		emit(map[string]any{"ev": "done"})
		return
	}
	var priorErr error
	if nc.Prior == "same-without-nnp" {
		// a history: the very same filter was loaded before, without asking for no_new_privs (a privileged caller may)
		judging = false
		pf := f
		pf.NoNewPrivs = false
		priorErr = seccomp.LoadFilter(pf)
		judging = true
		instMu.Lock()
		installs = nil
		instMu.Unlock()
	}
	tidBefore = syscall.Gettid()
	err = seccomp.LoadFilter(f)
	tidAfter = syscall.Gettid()
	_ = priorErr
	instMu.Lock()
	ins := append([]installed(nil), installs...)
	instMu.Unlock()
	// probe on the goroutine that loaded (wherever it runs now)
	for _, p := range c.Probes {
		_, e := doProbe(p)
		probes = append(probes, e)
	}
	emit(map[string]any{"ev": "loaded", "ok": err == nil, "err": errString(err), "tid_before": tidBefore, "tid_after": tidAfter, "prior": nc.Prior, "prior_err": errString(priorErr),
		"hook_calls": hookCalls, "hook_tid_in": hookTidIn, "hook_tid_out": hookTidOut, "migrated": migrated, "attempts": attempts,
		"installs": ins, "after": snapshot(), "self": statusFields(syscall.Gettid()), "probe_errnos": probes})
	emit(map[string]any{"ev": "done"})
}
