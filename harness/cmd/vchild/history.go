package main

import (
	"os"
	"runtime"
	"strconv"
	"syscall"

	seccomp "github.com/elastic/go-seccomp-bpf"
)

// snapshot reads the seccomp/no_new_privs state of every task of the process.
func snapshot() map[string]map[string]string {
	out := map[string]map[string]string{}
	ents, err := os.ReadDir("/proc/self/task")
	if err != nil {
		return out
	}
	for _, e := range ents {
		tid, err := strconv.Atoi(e.Name())
		if err != nil {
			continue
		}
		if f := statusFields(tid); f != nil {
			out[e.Name()] = f
		}
	}
	return out
}

type workerCmd struct {
	f     func() any
	reply chan any
}

// worker is a goroutine locked to its own OS thread for its whole life.
type worker struct {
	tid int
	ch  chan workerCmd
}

func startWorkers(n int) []*worker {
	ws := make([]*worker, n)
	for i := range ws {
		w := &worker{ch: make(chan workerCmd)}
		ready := make(chan int)
		go func() {
			runtime.LockOSThread()
			ready <- syscall.Gettid()
			for c := range w.ch {
				c.reply <- c.f()
			}
		}()
		w.tid = <-ready
		ws[i] = w
	}
	return ws
}

func (w *worker) do(f func() any) any {
	r := make(chan any, 1)
	w.ch <- workerCmd{f, r}
	return <-r
}

// history executes a history of load calls on pinned threads and reports the
// kernel's per-thread state around every call (C09).
func history(c *Case) {
	h := c.History
	if h == nil {
		fatal("no history")
	}
	hookInstall()
	if h.MainThreadIsWorker0 && h.Threads > 1 {
		// the main goroutine (locked to the main thread from init) serves as worker 0; the history is driven from another goroutine
		w0 := &worker{tid: syscall.Gettid(), ch: make(chan workerCmd)}
		rest := startWorkers(h.Threads - 1)
		finished := make(chan struct{})
		go func() {
			historyOn(h, append([]*worker{w0}, rest...))
			close(finished)
		}()
		for {
			select {
			case c := <-w0.ch:
				c.reply <- c.f()
			case <-finished:
				return
			}
		}
	}
	historyOn(h, startWorkers(h.Threads))
}

func historyOn(h *HistoryCase, ws []*worker) {
	tids := make([]int, len(ws))
	for i, w := range ws {
		tids[i] = w.tid
	}
	emit(map[string]any{"ev": "start", "pid": os.Getpid(), "worker_tids": tids, "uid": os.Getuid(), "goarch": goarch})
	probeAll := func() map[string]map[string]uint64 {
		res := map[string]map[string]uint64{}
		for _, w := range ws {
			m := w.do(func() any {
				m := map[string]uint64{}
				for _, nr := range h.Probes {
					_, _, e := syscall.RawSyscall(uintptr(nr), 0, 0, 0)
					m[strconv.FormatUint(nr, 10)] = uint64(e)
				}
				return m
			}).(map[string]uint64)
			res[strconv.Itoa(w.tid)] = m
		}
		return res
	}
	emit(map[string]any{"ev": "initial", "state": snapshot(), "probes": probeAll()})
	for idx, call := range h.Calls {
		w := ws[call.Thread%len(ws)]
		before := snapshot()
		instMu.Lock()
		installs = installs[:0]
		instMu.Unlock()
		res := w.do(func() any {
			switch call.Op {
			case "supported":
				return map[string]any{"supported": seccomp.Supported()}
			case "setnnp":
				err := seccomp.SetNoNewPrivs()
				return map[string]any{"err": errString(err), "nil": err == nil}
			default:
				spec, ok := h.Policies[call.Policy]
				if !ok {
					return map[string]any{"err": "harness: unknown policy kind " + call.Policy}
				}
				f := seccomp.Filter{NoNewPrivs: call.NNP, Flag: seccomp.FilterFlag(call.Flags), Policy: *spec.Policy()}
				err := seccomp.LoadFilter(f)
				return map[string]any{"err": errString(err), "nil": err == nil}
			}
		}).(map[string]any)
		after := snapshot()
		instMu.Lock()
		reached := len(installs) > 0
		instMu.Unlock()
		emit(map[string]any{"ev": "call", "idx": idx, "call": call, "tid": w.tid, "result": res, "reached_kernel": reached,
			"before": before, "after": after, "probes": probeAll()})
	}
	emit(map[string]any{"ev": "done"})
}

func errString(err error) string {
	if err == nil {
		return ""
	}
	return err.Error()
}
