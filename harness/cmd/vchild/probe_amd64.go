package main

const goarch = "amd64"

// int80 issues a system call through the i386 entry point (int $0x80) from
// this 64-bit process: the kernel reports it to seccomp with
// AUDIT_ARCH_I386 and the i386 syscall number.
func int80(nr, a1, a2, a3 uint32) int32
