// vchild is the throw-away process in which the real loader runs (E6). It
// reads one case (JSON file named by argv[2]), performs it and reports on
// stdout, one JSON object per line. Every potentially lethal step is
// announced before it is taken.
//
//	vchild enforce case.json   load one filter, issue probe syscalls (C02/C04/C05/C08)
//	vchild probe   case.json   issue probe syscalls only (target of cmd/sandbox, C15/C18)
//	vchild history case.json   a history of load calls over pinned threads (C09)
//	vchild tsync   case.json   thread-sync under schedules (C10)
//	vchild nnp     case.json   no_new_privs ordering/pinning (C11)
package main

import (
	"bufio"
	"encoding/json"
	"fmt"
	"os"
	"runtime"
	"sync"
	"syscall"
	"time"
	"unsafe"

	seccomp "github.com/elastic/go-seccomp-bpf"
	"github.com/elastic/go-seccomp-bpf/arch"

	"verif/harness/vlib"
)

type (
	Probe       = vlib.Probe
	Case        = vlib.ChildCase
	HistoryCase = vlib.HistoryCase
)

var (
	outMu sync.Mutex
	out   = bufio.NewWriter(os.Stdout)
)

func emit(v any) {
	b, _ := json.Marshal(v)
	outMu.Lock()
	out.Write(b)
	out.WriteByte('\n')
	out.Flush()
	outMu.Unlock()
}

func fatal(msg string) {
	emit(map[string]any{"ev": "harness-error", "msg": msg})
	os.Exit(4)
}

func readCase() *Case {
	if len(os.Args) < 3 {
		fatal("usage: vchild <mode> <case.json>")
	}
	b, err := os.ReadFile(os.Args[2])
	if err != nil {
		fatal(err.Error())
	}
	var c Case
	if err := json.Unmarshal(b, &c); err != nil {
		fatal(err.Error())
	}
	gcSpray = c.GCSpray
	return &c
}

// installed holds what hook H3 saw.
type installed struct {
	Op    uint64      `json:"op"`
	Flags uint32      `json:"flags"`
	Prog  [][4]uint32 `json:"prog"` // code, jt, jf, k
	Tid   int         `json:"tid"`
}

var (
	instMu   sync.Mutex
	installs []installed
)

func hookInstall() {
	seccomp.VerifInstall = func(op uintptr, flags uint32, prog []syscall.SockFilter) {
		in := installed{Op: uint64(op), Flags: flags, Tid: syscall.Gettid()}
		for _, f := range prog {
			in.Prog = append(in.Prog, [4]uint32{uint32(f.Code), uint32(f.Jt), uint32(f.Jf), f.K})
		}
		instMu.Lock()
		installs = append(installs, in)
		instMu.Unlock()
		if gcSpray != 0 {
			spray(len(prog))
		}
	}
}

// gcSpray (from the case): a garbage collection at the last observable point before the
// seccomp system call, followed by allocations of the program's size class.
var (
	gcSpray   int
	sprayKeep [][]syscall.SockFilter
)

func spray(n int) {
	runtime.GC()
	runtime.GC()
	if gcSpray == 3 || n == 0 {
		return
	}
	count := (48 << 20) / (n * 8)
	if count > 200000 {
		count = 200000
	}
	if count < 256 {
		count = 256
	}
	for i := 0; i < count; i++ {
		s := make([]syscall.SockFilter, n)
		if gcSpray == 1 {
			for j := range s {
				s[j] = syscall.SockFilter{Code: 0x06, K: 0x7fff0000}
			}
		}
		sprayKeep = append(sprayKeep, s)
	}
}

func buildFilter(c *Case) seccomp.Filter {
	p := c.Policy.Policy()
	if c.ForceArch != "" {
		info, err := arch.GetInfo(c.ForceArch)
		if err != nil {
			fatal(err.Error())
		}
		seccomp.VerifSetArch(p, info)
	}
	flag := seccomp.FilterFlag(c.Flags)
	for _, n := range c.FlagNames {
		switch n {
		case "tsync":
			flag |= seccomp.FilterFlagTSync
		case "log":
			flag |= seccomp.FilterFlagLog
		}
	}
	return seccomp.Filter{NoNewPrivs: c.NNP, Flag: flag, Policy: *p}
}

func doProbe(p Probe) (r1 uint64, errno uint64) {
	switch p.Kind {
	case "int80":
		v := int80(uint32(p.NR), uint32(p.Args[0]), uint32(p.Args[1]), uint32(p.Args[2]))
		if v < 0 && v > -4096 {
			return ^uint64(0), uint64(-v)
		}
		return uint64(uint32(v)), 0
	default:
		a, _, e := syscall.RawSyscall6(uintptr(p.NR), uintptr(p.Args[0]), uintptr(p.Args[1]), uintptr(p.Args[2]), uintptr(p.Args[3]), uintptr(p.Args[4]), uintptr(p.Args[5]))
		// Go's wrapper takes only -4094..-1 for an error; the kernel's range ends at -4095 (MAX_ERRNO), which a filter can return
		if e == 0 && a == ^uintptr(0)-4094 {
			return ^uint64(0), 4095
		}
		return uint64(a), uint64(e)
	}
}

func runProbes(c *Case) {
	for i, p := range c.Probes {
		last := i == len(c.Probes)-1
		emit(map[string]any{"ev": "pre", "i": i})
		if last && c.KillThreadProbe {
			killThreadProbe(i, p)
			continue
		}
		if c.PauseBetweenProbes && i%4 == 0 {
			time.Sleep(150 * time.Microsecond)
			runtime.Gosched()
		}
		r1, e := doProbe(p)
		emit(map[string]any{"ev": "post", "i": i, "r": r1, "errno": e, "tid": syscall.Gettid()})
	}
}

func statusFields(tid int) map[string]string {
	b, err := os.ReadFile(fmt.Sprintf("/proc/self/task/%d/status", tid))
	if err != nil {
		return nil
	}
	m := map[string]string{}
	for _, k := range []string{"Seccomp", "Seccomp_filters", "NoNewPrivs", "State"} {
		m[k] = field(string(b), k)
	}
	// A thread that was already exiting when a thread-sync load ran is skipped by
	// the kernel (seccomp_sync_threads ignores PF_EXITING tasks) and its filter is
	// released on exit; it never runs user code again. The flag is read after the
	// seccomp fields: exiting-at-load implies exiting-now.
	m["Exiting"] = "0"
	if sb, err := os.ReadFile(fmt.Sprintf("/proc/self/task/%d/stat", tid)); err == nil {
		st := string(sb)
		if i := lastIndexByte(st, ')'); i >= 0 {
			f := fieldsOf(st[i+1:])
			if len(f) > 6 {
				var flags uint64
				fmt.Sscan(f[6], &flags)
				if flags&0x4 != 0 { // PF_EXITING
					m["Exiting"] = "1"
				}
			}
			if len(f) > 0 && (f[0] == "Z" || f[0] == "X") {
				m["Exiting"] = "1"
			}
		}
	} else {
		m["Exiting"] = "1" // gone
	}
	return m
}

func lastIndexByte(s string, c byte) int {
	for i := len(s) - 1; i >= 0; i-- {
		if s[i] == c {
			return i
		}
	}
	return -1
}

func fieldsOf(s string) []string {
	var out []string
	start := -1
	for i := 0; i <= len(s); i++ {
		if i == len(s) || s[i] == ' ' || s[i] == '\n' {
			if start >= 0 {
				out = append(out, s[start:i])
				start = -1
			}
		} else if start < 0 {
			start = i
		}
	}
	return out
}

func field(status, key string) string {
	for _, l := range splitLines(status) {
		if len(l) > len(key)+1 && l[:len(key)+1] == key+":" {
			v := l[len(key)+1:]
			for len(v) > 0 && (v[0] == ' ' || v[0] == '\t') {
				v = v[1:]
			}
			return v
		}
	}
	return ""
}

func splitLines(s string) []string {
	var out []string
	start := 0
	for i := 0; i < len(s); i++ {
		if s[i] == '\n' {
			out = append(out, s[start:i])
			start = i + 1
		}
	}
	return out
}

func enforce(c *Case) {
	// Without thread-sync only the calling thread is filtered: stay on it.
	runtime.LockOSThread()
	hookInstall()
	if c.Linux32 {
		_, _, e := syscall.RawSyscall(syscall.SYS_PERSONALITY, 0x0008, 0, 0) // PER_LINUX32
		emit(map[string]any{"ev": "personality", "errno": uint64(e)})
	}
	f := buildFilter(c)
	if c.PreloadOnOtherThread {
		done := make(chan string)
		go func() {
			runtime.LockOSThread()
			pf := buildFilter(c)
			if c.PreloadPolicy != nil {
				pf = seccomp.Filter{NoNewPrivs: true, Policy: *c.PreloadPolicy.Policy()}
			}
			done <- errString(seccomp.LoadFilter(pf))
			select {} // the thread stays alive with its filter
		}()
		emit(map[string]any{"ev": "preloaded", "err": <-done})
		instMu.Lock()
		installs = nil
		instMu.Unlock()
	}
	if c.OuterPolicy != nil {
		err := seccomp.LoadFilter(seccomp.Filter{NoNewPrivs: true, Policy: *c.OuterPolicy.Policy()})
		emit(map[string]any{"ev": "outer", "err": errString(err)})
		instMu.Lock()
		installs = nil
		instMu.Unlock()
	}
	emit(map[string]any{"ev": "start", "pid": os.Getpid(), "tid": syscall.Gettid(), "goarch": goarch, "before": statusFields(syscall.Gettid())})
	if c.PauseBetweenProbes {
		// other threads exist and are idle, so a goroutine that is not locked has somewhere to go
		var wg sync.WaitGroup
		for k := 0; k < 6; k++ {
			wg.Add(1)
			go func() {
				runtime.LockOSThread()
				time.Sleep(2 * time.Millisecond)
				runtime.UnlockOSThread()
				wg.Done()
			}()
		}
		wg.Wait()
	}
	if c.SiblingLoads > 0 {
		runtime.GOMAXPROCS(1)
		seccomp.VerifPoint = func(name string) {
			if name == "post-prctl" {
				time.Sleep(300 * time.Microsecond)
			}
		}
		sib := seccomp.Policy{DefaultAction: seccomp.ActionAllow, Syscalls: []seccomp.SyscallGroup{{Names: []string{"munlockall", "getpgrp", "sync"}, Action: seccomp.ActionLog}}}
		started := make(chan struct{}, c.SiblingLoads)
		for k := 0; k < c.SiblingLoads; k++ {
			go func() {
				runtime.LockOSThread()
				started <- struct{}{}
				for n := 0; n < 4; n++ {
					seccomp.LoadFilter(seccomp.Filter{NoNewPrivs: true, Policy: sib})
				}
				select {} // the thread stays alive with its filters
			}()
		}
		for k := 0; k < c.SiblingLoads; k++ {
			<-started
		}
	}
	err := seccomp.LoadFilter(f)
	msg := ""
	if err != nil {
		msg = err.Error()
	}
	instMu.Lock()
	var ins []installed
	for _, in := range installs {
		if in.Tid == syscall.Gettid() { // sibling threads' loads are not the judged one
			ins = append(ins, in)
		}
	}
	instMu.Unlock()
	emit(map[string]any{"ev": "loaded", "ok": err == nil, "err": msg, "tid": syscall.Gettid(), "installs": ins, "after": statusFields(syscall.Gettid())})
	runProbes(c)
	emit(map[string]any{"ev": "done"})
}

func main() {
	// As the target of cmd/sandbox: leave a marker as the very first action.
	if m := os.Getenv("VERIF_MARKER"); m != "" {
		if f, err := os.Create(m); err == nil {
			f.Close()
		}
	}
	if len(os.Args) < 2 {
		fatal("usage: vchild <mode> <case.json>")
	}
	switch os.Args[1] {
	case "enforce":
		enforce(readCase())
	case "probe":
		c := readCase()
		emit(map[string]any{"ev": "start", "pid": os.Getpid(), "goarch": goarch, "before": statusFields(syscall.Gettid())})
		runProbes(c)
		emit(map[string]any{"ev": "done"})
	case "rawload":
		rawload(readCase())
	case "conc":
		conc(readCase())
	case "history":
		history(readCase())
	case "tsync":
		tsync(readCase())
	case "nnp":
		nnp(readCase())
	default:
		fatal("unknown mode " + os.Args[1])
	}
}

// rawload hands a raw program to seccomp(2) without going through the
// library (calibration of the harness' kernel-verifier port).
func rawload(c *Case) {
	if goarch != "amd64" {
		fatal("rawload is amd64 only")
	}
	runtime.LockOSThread()
	prog := make([]syscall.SockFilter, len(c.Raw))
	for i, q := range c.Raw {
		prog[i] = syscall.SockFilter{Code: uint16(q[0]), Jt: uint8(q[1]), Jf: uint8(q[2]), K: q[3]}
	}
	fprog := syscall.SockFprog{Len: uint16(len(prog))}
	if len(prog) > 0 {
		fprog.Filter = &prog[0]
	}
	syscall.RawSyscall6(syscall.SYS_PRCTL, 38, 1, 0, 0, 0, 0)
	_, _, e := syscall.RawSyscall(317, 1, 0, uintptr(unsafe.Pointer(&fprog)))
	emit(map[string]any{"ev": "rawloaded", "errno": uint64(e), "len": len(prog)})
}
