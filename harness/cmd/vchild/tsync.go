package main

import (
	"fmt"
	"os"
	"runtime"
	"sync"
	"sync/atomic"
	"syscall"
	"time"
	"unsafe"

	seccomp "github.com/elastic/go-seccomp-bpf"
)

// threadLog is written by exactly one thread and read after that thread has
// finished (happens-before through the WaitGroup), so the monitor does not
// race with itself.
type threadLog struct {
	Tid         int    `json:"tid"`
	State       string `json:"state"`
	CreatedWhen string `json:"created"` // "before", "during", "after" the load
	// Obs: for each probe, 2*flagSeenBefore + filtered, as a compact string of digits
	Obs  []byte `json:"-"`
	ObsS string `json:"obs"`
	// Counters
	Unfiltered    int    `json:"unfiltered"`
	Filtered      int    `json:"filtered"`
	BadAfterFlag  int    `json:"bad_after_flag"` // flag seen before the syscall began, syscall not filtered
	FirstFiltered int    `json:"first_filtered"` // index of first filtered probe (-1 none)
	LastUnfilt    int    `json:"last_unfiltered"`
	StateAtLoad   string `json:"state_at_load"`
}

const (
	epermU = 1
)

var spinSink atomic.Uint64

func tsync(c *Case) {
	tc := c.TSync
	if tc == nil {
		fatal("no tsync case")
	}
	if tc.GoMaxProcs > 0 {
		runtime.GOMAXPROCS(tc.GoMaxProcs)
	}
	hookInstall()
	var loaded atomic.Bool  // set by the loader after LoadFilter returned nil
	var loading atomic.Bool // set just before LoadFilter is called
	var stop atomic.Bool
	var seq atomic.Int64
	nr := uintptr(tc.ProbeNR)

	var logsMu sync.Mutex
	var logs []*threadLog
	newLog := func(state string) *threadLog {
		when := "before"
		if loaded.Load() {
			when = "after"
		} else if loading.Load() {
			when = "during"
		}
		l := &threadLog{Tid: syscall.Gettid(), State: state, CreatedWhen: when, FirstFiltered: -1, LastUnfilt: -1}
		logsMu.Lock()
		logs = append(logs, l)
		logsMu.Unlock()
		return l
	}
	probe := func(l *threadLog) {
		seen := loaded.Load() // read the flag first, then begin the syscall
		_, _, e := syscall.RawSyscall(nr, 0, 0, 0)
		seq.Add(1)
		filtered := e == epermU
		idx := l.Unfiltered + l.Filtered
		if filtered {
			l.Filtered++
			if l.FirstFiltered < 0 {
				l.FirstFiltered = idx
			}
		} else {
			l.Unfiltered++
			l.LastUnfilt = idx
		}
		if seen && !filtered {
			l.BadAfterFlag++
		}
		if len(l.Obs) < 2000 {
			b := byte('0')
			if seen {
				b += 2
			}
			if filtered {
				b++
			}
			l.Obs = append(l.Obs, b)
		}
	}

	var wg sync.WaitGroup
	pr, pw, _ := os.Pipe()
	var futexWord uint32
	ready := make(chan struct{}, len(tc.Threads)+tc.Spawners)

	// after the flag every thread performs ProbesEach more probes
	afterProbes := func(l *threadLog) {
		for !loaded.Load() && !stop.Load() {
			runtime.Gosched()
		}
		for i := 0; i < tc.ProbesEach; i++ {
			probe(l)
		}
	}
	for _, state := range tc.Threads {
		wg.Add(1)
		go func(state string) {
			defer wg.Done()
			runtime.LockOSThread()
			l := newLog(state)
			if state == "ownfilter" {
				// this thread carries a filter of its own (loaded without thread-sync):
				// a later thread-sync load from another thread must be refused
				own := seccomp.Filter{NoNewPrivs: true, Policy: seccomp.Policy{DefaultAction: seccomp.ActionAllow,
					Syscalls: []seccomp.SyscallGroup{{Names: []string{"getpgrp"}, Action: seccomp.ActionErrno}}}}
				err := seccomp.LoadFilter(own)
				for k := 0; k < 3 && err != nil; k++ { // a transient injected failure of this thread's first call
					err = seccomp.LoadFilter(own)
				}
				if err != nil {
					l.State = "ownfilter-load-failed"
				}
			}
			ready <- struct{}{}
			switch state {
			case "spin":
				for !loaded.Load() && !stop.Load() {
				}
			case "probe":
				for !loaded.Load() && !stop.Load() {
					probe(l)
				}
			case "sleep", "ownfilter":
				for !loaded.Load() && !stop.Load() {
					ts := syscall.Timespec{Nsec: 2000000}
					syscall.Syscall(syscall.SYS_NANOSLEEP, uintptr(unsafe.Pointer(&ts)), 0, 0)
				}
			case "pipe":
				var b [1]byte
				syscall.Read(int(pr.Fd()), b[:]) // blocks in the kernel until the loader writes
			case "futex":
				for atomic.LoadUint32(&futexWord) == 0 && !stop.Load() {
					ts := syscall.Timespec{Sec: 1}
					syscall.Syscall6(syscall.SYS_FUTEX, uintptr(unsafe.Pointer(&futexWord)), 0 /*FUTEX_WAIT*/, 0, uintptr(unsafe.Pointer(&ts)), 0, 0)
				}
			}
			afterProbes(l)
		}(state)
	}
	// spawners keep creating short-lived locked threads
	var spawned atomic.Int64
	for s := 0; s < tc.Spawners; s++ {
		wg.Add(1)
		go func() {
			defer wg.Done()
			runtime.LockOSThread()
			ready <- struct{}{}
			for !stop.Load() && spawned.Load() < 400 {
				var w sync.WaitGroup
				w.Add(1)
				go func() {
					defer w.Done()
					runtime.LockOSThread() // never unlocked: the thread exits with the goroutine
					l := newLog("spawned")
					spawned.Add(1)
					for i := 0; i < 3; i++ {
						probe(l)
					}
				}()
				w.Wait()
				if loaded.Load() && spawned.Load() > 20 {
					return
				}
			}
		}()
	}
	for i := 0; i < len(tc.Threads)+tc.Spawners; i++ {
		<-ready
	}

	// the loader
	runtime.LockOSThread()
	loaderTid := syscall.Gettid()
	var sink uint64
	for i := 0; i < tc.LoaderSpin; i++ {
		sink += uint64(i) * 2654435761
		if i < 4 {
			runtime.Gosched()
		}
	}
	spinSink.Store(sink)
	before := snapshot()
	f := buildFilter(c)
	instMu.Lock()
	installs = nil // only the loader's call is reported (threads with a filter of their own loaded earlier)
	instMu.Unlock()
	sideErr := "-"
	if tc.SideLoadAtHook {
		fired := false
		sidePolicy := seccomp.Policy{DefaultAction: seccomp.ActionAllow, Syscalls: []seccomp.SyscallGroup{{Names: []string{"getpgrp", "vhangup"}, Action: seccomp.ActionErrno}}}
		sideLoad := func() {
			done := make(chan [2]any)
			go func() {
				runtime.LockOSThread() // never unlocked: the thread exits with the goroutine
				e := seccomp.LoadFilter(seccomp.Filter{NoNewPrivs: true, Flag: seccomp.FilterFlag(0), Policy: sidePolicy})
				done <- [2]any{syscall.Gettid(), errString(e)}
			}()
			r := <-done
			sideErr = r[1].(string)
			// until that thread is gone: a thread with another filter makes the kernel refuse a thread-sync load
			for k := 0; k < 120; k++ {
				if _, err := os.Stat(fmt.Sprintf("/proc/self/task/%d", r[0].(int))); err != nil {
					break
				}
				time.Sleep(5 * time.Millisecond)
			}
		}
		// a completed load earlier in the life of the process, on a thread that is gone: the judged policy itself, without
		// thread-sync (whatever such a load leaves behind in the process is large enough for the loads that follow)
		small := sidePolicy
		sidePolicy = f.Policy
		sideLoad()
		sidePolicy = small
		instMu.Lock()
		installs = nil
		instMu.Unlock()
		seccomp.VerifPoint = func(name string) {
			if name != "post-prctl" || fired || syscall.Gettid() != loaderTid {
				return
			}
			fired = true
			sideLoad()
		}
	}
	loading.Store(true)
	err := seccomp.LoadFilter(f)
	seccomp.VerifPoint = nil
	if err == nil {
		loaded.Store(true)
	}
	atLoad := snapshot()
	// release the blocked threads
	pw.Write(make([]byte, 64))
	atomic.StoreUint32(&futexWord, 1)
	syscall.Syscall6(syscall.SYS_FUTEX, uintptr(unsafe.Pointer(&futexWord)), 1 /*FUTEX_WAKE*/, 1<<30, 0, 0, 0)
	if err != nil {
		stop.Store(true)
		wg.Wait()
		emit(map[string]any{"ev": "loaded", "ok": false, "err": err.Error(), "side_err": sideErr})
		emit(map[string]any{"ev": "done"})
		return
	}
	// threads created after the load, from whatever thread the runtime picks
	var awg sync.WaitGroup
	for i := 0; i < tc.SpawnAfter; i++ {
		awg.Add(1)
		go func() {
			defer awg.Done()
			runtime.LockOSThread()
			l := newLog("after")
			for k := 0; k < 3; k++ {
				probe(l)
			}
			time.Sleep(time.Millisecond)
		}()
	}
	awg.Wait()
	// own probes on the loader thread
	ll := newLog("loader")
	for i := 0; i < tc.ProbesEach; i++ {
		probe(ll)
	}
	wg.Wait()
	stop.Store(true)
	after := snapshot()
	instMu.Lock()
	var ins []installed
	for _, in := range installs {
		if in.Tid == loaderTid { // the loader is locked to its thread; other threads' loads are their own
			ins = append(ins, in)
		}
	}
	instMu.Unlock()
	logsMu.Lock()
	for _, l := range logs {
		l.ObsS = string(l.Obs)
	}
	emit(map[string]any{"ev": "loaded", "ok": true, "loader_tid": loaderTid, "side_err": sideErr, "installs": ins, "before": before, "at_load": atLoad, "after": after,
		"logs": logs, "probes_total": seq.Load(), "spawned": spawned.Load()})
	logsMu.Unlock()
	emit(map[string]any{"ev": "done"})
}
