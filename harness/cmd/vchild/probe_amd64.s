#include "textflag.h"

// func int80(nr, a1, a2, a3 uint32) int32
TEXT ·int80(SB),NOSPLIT,$0-20
	MOVL nr+0(FP), AX
	MOVL a1+4(FP), BX
	MOVL a2+8(FP), CX
	MOVL a3+12(FP), DX
	XORL SI, SI
	XORL DI, DI
	INT $0x80
	MOVL AX, ret+16(FP)
	RET
