package main

import (
	"fmt"
	"os"
	"runtime"
	"runtime/debug"
	"syscall"
	"time"
)

// killThreadProbe issues the probe from an expendable locked OS thread. If
// the filter answers KILL_THREAD that thread vanishes from /proc/self/task
// while the process lives on; the goroutine then never returns, so the
// garbage collector is switched off (a stop-the-world would wait for it).
func killThreadProbe(i int, p Probe) {
	debug.SetGCPercent(-1)
	// the probe is a raw system call: the dying thread takes its P with it, so at least one more is needed
	if runtime.GOMAXPROCS(0) < 2 {
		runtime.GOMAXPROCS(2)
	}
	tidCh := make(chan int, 2)
	go func() {
		runtime.LockOSThread()
		tidCh <- syscall.Gettid()
		time.Sleep(20 * time.Millisecond)
		r1, e := doProbe(p)
		emit(map[string]any{"ev": "post", "i": i, "r": r1, "errno": e})
		tidCh <- -1
	}()
	tid := <-tidCh
	for n := 0; n < 6000; n++ {
		select {
		case <-tidCh:
			emit(map[string]any{"ev": "thread-survived", "i": i, "tid": tid})
			return
		default:
		}
		if threadDead(tid) {
			emit(map[string]any{"ev": "thread-gone", "i": i, "tid": tid})
			return
		}
		time.Sleep(5 * time.Millisecond)
	}
	emit(map[string]any{"ev": "thread-wait-timeout", "i": i, "tid": tid})
}

// threadDead: the task entry is gone, or - for the thread group leader, whose entry stays until the whole
// process ends - the task is a zombie.
func threadDead(tid int) bool {
	b, err := os.ReadFile(fmt.Sprintf("/proc/self/task/%d/stat", tid))
	if err != nil {
		return true
	}
	st := string(b)
	if k := lastIndexByte(st, ')'); k >= 0 {
		f := fieldsOf(st[k+1:])
		return len(f) > 0 && (f[0] == "Z" || f[0] == "X")
	}
	return false
}
