package main

const goarch = "386"

func int80(nr, a1, a2, a3 uint32) int32 { return -38 }
