package vlib

import (
	"fmt"

	"golang.org/x/net/bpf"
)

// KernelCheck is a transcription of the checks Linux applies to a seccomp
// filter before attaching it: the length test of seccomp_prepare_filter,
// bpf_check_classic (net/core/filter.c) and seccomp_check_filter
// (kernel/seccomp.c). It returns the name of the first rule that rejects the
// program, or "" if the kernel accepts it.
//
// It is calibrated against the running kernel by the C05/C08 checks.
func KernelCheck(f []bpf.RawInstruction) string {
	flen := len(f)
	if flen == 0 {
		return "empty"
	}
	if flen > 4096 {
		return "too-long"
	}
	// bpf_check_classic
	for pc, in := range f {
		if !classicAllowed(in.Op) {
			return fmt.Sprintf("classic-opcode@%d", pc)
		}
		switch in.Op {
		case 0x34, 0x94: // ALU|DIV|K, ALU|MOD|K
			if in.K == 0 {
				return fmt.Sprintf("div-by-zero@%d", pc)
			}
		case 0x64, 0x74: // ALU|LSH|K, ALU|RSH|K
			if in.K >= 32 {
				return fmt.Sprintf("shift@%d", pc)
			}
		case 0x60, 0x61, 0x02, 0x03: // LD|MEM, LDX|MEM, ST, STX
			if in.K >= 16 {
				return fmt.Sprintf("memword@%d", pc)
			}
		case opJa:
			if uint64(in.K) >= uint64(flen-pc-1) {
				return fmt.Sprintf("ja-out-of-bounds@%d", pc)
			}
		case 0x15, 0x1d, 0x25, 0x2d, 0x35, 0x3d, 0x45, 0x4d:
			if pc+int(in.Jt)+1 >= flen || pc+int(in.Jf)+1 >= flen {
				return fmt.Sprintf("jump-out-of-bounds@%d", pc)
			}
		case 0x20, 0x28, 0x30: // LD|{W,H,B}|ABS: ancillary offsets are resolved; negative ones must be known
			if in.K >= 0xfffff000 && !ancKnown(in.K) {
				return fmt.Sprintf("ancillary@%d", pc)
			}
		}
	}
	switch f[flen-1].Op {
	case 0x06, 0x16: // RET|K, RET|A
	default:
		return "last-not-ret"
	}
	if r := checkLoadAndStores(f); r != "" {
		return r
	}
	// seccomp_check_filter
	for pc, in := range f {
		switch in.Op {
		case opLdWAbs:
			if in.K >= 64 || in.K&3 != 0 {
				return fmt.Sprintf("seccomp-load-offset@%d", pc)
			}
		case 0x80, 0x81: // LD|W|LEN, LDX|W|LEN
		case 0x06, 0x16, // RET
			0x04, 0x0c, 0x14, 0x1c, 0x24, 0x2c, 0x34, 0x3c, 0x54, 0x5c, 0x44, 0x4c, 0xa4, 0xac, 0x64, 0x6c, 0x74, 0x7c, 0x84, // ALU
			0x00, 0x01, // LD|IMM, LDX|IMM
			0x07, 0x87, // MISC TAX, TXA
			0x60, 0x61, 0x02, 0x03, // LD|MEM, LDX|MEM, ST, STX
			0x05, 0x15, 0x1d, 0x25, 0x2d, 0x35, 0x3d, 0x45, 0x4d: // JMP
		default:
			return fmt.Sprintf("seccomp-opcode@%d", pc)
		}
	}
	return ""
}

func ancKnown(k uint32) bool {
	// SKF_AD_OFF + {0,4,...,60} are the known ancillary loads; seccomp rejects
	// them anyway in seccomp_check_filter (offset >= 64).
	const skfAdOff = 0xfffff000
	return k >= skfAdOff && k <= skfAdOff+60 && (k-skfAdOff)%4 == 0
}

func classicAllowed(op uint16) bool {
	switch op {
	case 0x04, 0x0c, 0x14, 0x1c, 0x24, 0x2c, 0x34, 0x3c, 0x94, 0x9c, 0x54, 0x5c, 0x44, 0x4c, 0xa4, 0xac, 0x64, 0x6c, 0x74, 0x7c, 0x84,
		0x20, 0x28, 0x30, 0x80, 0x40, 0x48, 0x50, 0x00, 0x60,
		0x01, 0x81, 0xb1, 0x61,
		0x02, 0x03,
		0x07, 0x87,
		0x06, 0x16,
		0x05, 0x15, 0x1d, 0x25, 0x2d, 0x35, 0x3d, 0x45, 0x4d:
		return true
	}
	return false
}

// checkLoadAndStores ports check_load_and_stores: a scratch word must have
// been written on every path before it is read.
func checkLoadAndStores(f []bpf.RawInstruction) string {
	flen := len(f)
	masks := make([]uint16, flen)
	for i := range masks {
		masks[i] = 0xffff
	}
	memvalid := uint16(0)
	for pc, in := range f {
		memvalid &= masks[pc]
		switch in.Op {
		case 0x02, 0x03:
			memvalid |= 1 << in.K
		case 0x60, 0x61:
			if memvalid&(1<<in.K) == 0 {
				return fmt.Sprintf("uninitialised-mem@%d", pc)
			}
		case opJa:
			masks[pc+1+int(in.K)] &= memvalid
			memvalid = 0xffff
		case 0x15, 0x1d, 0x25, 0x2d, 0x35, 0x3d, 0x45, 0x4d:
			masks[pc+1+int(in.Jt)] &= memvalid
			masks[pc+1+int(in.Jf)] &= memvalid
			memvalid = 0xffff
		}
	}
	return ""
}
