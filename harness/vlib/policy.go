package vlib

import (
	"fmt"
	"os"
	"sync/atomic"

	seccomp "github.com/elastic/go-seccomp-bpf"
	"golang.org/x/net/bpf"
)

// PolicySpec is the harness' own serialisable form of a policy (replay files,
// child process input). It does not depend on the struct tags of the package
// under test.
type PolicySpec struct {
	Arch        string      `json:"arch"`
	Default     uint32      `json:"default"`
	Groups      []GroupSpec `json:"groups"`
	NilSyscalls bool        `json:"nil_syscalls,omitempty"`
}

type GroupSpec struct {
	Names  []string    `json:"names"`
	With   []EntrySpec `json:"with,omitempty"`
	Action uint32      `json:"action"`
}

type EntrySpec struct {
	Name  string     `json:"name"`
	Conds []CondSpec `json:"conds"`
}

type CondSpec struct {
	Arg uint32 `json:"arg"`
	Op  string `json:"op"`
	Val uint64 `json:"val"`
}

// Policy builds a fresh seccomp.Policy value (no shared slices).
func (s PolicySpec) Policy() *seccomp.Policy {
	p := &seccomp.Policy{DefaultAction: seccomp.Action(s.Default)}
	if !s.NilSyscalls {
		p.Syscalls = []seccomp.SyscallGroup{}
	}
	for _, g := range s.Groups {
		sg := seccomp.SyscallGroup{Action: seccomp.Action(g.Action)}
		if g.Names != nil {
			sg.Names = append([]string{}, g.Names...)
		}
		for _, e := range g.With {
			nc := seccomp.NameWithConditions{Name: e.Name}
			for _, c := range e.Conds {
				nc.Conditions = append(nc.Conditions, seccomp.Condition{Argument: c.Arg, Operation: seccomp.Operation(c.Op), Value: c.Val})
			}
			sg.NamesWithCondtions = append(sg.NamesWithCondtions, nc)
		}
		p.Syscalls = append(p.Syscalls, sg)
	}
	return p
}

// SpecOf converts a policy value to its serialisable form.
func SpecOf(p *seccomp.Policy, archName string) PolicySpec {
	s := PolicySpec{Arch: archName, Default: uint32(p.DefaultAction), NilSyscalls: p.Syscalls == nil}
	for _, g := range p.Syscalls {
		gs := GroupSpec{Action: uint32(g.Action)}
		if g.Names != nil {
			gs.Names = append([]string{}, g.Names...)
		}
		for _, nc := range g.NamesWithCondtions {
			es := EntrySpec{Name: nc.Name}
			for _, c := range nc.Conditions {
				es.Conds = append(es.Conds, CondSpec{Arg: c.Argument, Op: string(c.Operation), Val: c.Value})
			}
			gs.With = append(gs.With, es)
		}
		s.Groups = append(s.Groups, gs)
	}
	return s
}

// Brief is a short description for samples (large name lists abbreviated).
func (s PolicySpec) Brief() map[string]any {
	var gs []any
	for _, g := range s.Groups {
		names := any(g.Names)
		if len(g.Names) > 6 {
			names = fmt.Sprintf("%d names: %v ...", len(g.Names), g.Names[:4])
		}
		with := any(g.With)
		if len(g.With) > 3 {
			with = fmt.Sprintf("%d conditional entries, first: %+v", len(g.With), g.With[0])
		}
		gs = append(gs, map[string]any{"action": fmt.Sprintf("%#x", g.Action), "names": names, "with": with})
	}
	return map[string]any{"arch": s.Arch, "default": fmt.Sprintf("%#x", s.Default), "groups": gs}
}

// Compiled is the result of running the real compiler on a policy.
type Compiled struct {
	Policy *seccomp.Policy
	T      *Target
	Ins    []bpf.Instruction
	Raw    []bpf.RawInstruction
	Err    error // error of Policy.Assemble
	RawErr error // error of bpf.Assemble on an accepted program
	Panic  any   // recovered panic of Policy.Assemble
}

// Compile runs the real compiler: Policy.Assemble for target t (hook H1), then
// the raw encoding LoadFilter uses.
// compileSeq counts compilations of the process; rejectedInterleaved the rejected policies compiled in between.
var compileSeq, rejectedInterleaved atomic.Int64
var noRejectedHistory = os.Getenv("VERIF_NO_REJECTED_HISTORY") != ""

// RejectedInterleaved is the number of rejected policies that Compile has put in front of judged compilations.
func RejectedInterleaved() int64 { return rejectedInterleaved.Load() }

// compileRejected compiles, in the calling goroutine, a policy that the compiler must reject (whatever it answers is
// ignored): a history axis. What a rejected compilation leaves behind - in a pool, a cache, a package variable - must not
// show in the compilation that follows. The policies have a first group that is fine and would emit instructions with
// conspicuous actions (trap|0x77 / trace|0x99 are used by no generated policy), and a later element that is refused at
// different depths of the compiler: name resolution, duplicate detection, condition validation, the label assembler.
func compileRejected(t *Target, n int64) {
	defer func() { recover() }()
	if len(t.Names) < 8 {
		return
	}
	a, b := seccomp.ActionTrap|0x77, seccomp.ActionTrace|0x99
	k := int(n/5) % (len(t.Names) - 6)
	good := seccomp.SyscallGroup{Names: []string{t.Names[k], t.Names[k+1], t.Names[k+2]}, Action: a}
	goodCond := seccomp.SyscallGroup{Names: []string{t.Names[k+3]}, NamesWithCondtions: []seccomp.NameWithConditions{{Name: t.Names[k+4], Conditions: seccomp.ArgumentConditions{{Argument: 1, Operation: seccomp.Equal, Value: 0x1234}}}}, Action: b}
	var groups []seccomp.SyscallGroup
	switch (n / 5) % 7 {
	case 0:
		groups = []seccomp.SyscallGroup{good, {Names: []string{t.Names[k+5], "no_such_syscall_verif"}, Action: b}}
	case 1:
		groups = []seccomp.SyscallGroup{good, goodCond, {Names: []string{t.Names[k+5], t.Names[k+5]}, Action: a}}
	case 2:
		groups = []seccomp.SyscallGroup{good, {NamesWithCondtions: []seccomp.NameWithConditions{{Name: t.Names[k+5]}}, Action: b}}
	case 3:
		groups = []seccomp.SyscallGroup{goodCond, good, {NamesWithCondtions: []seccomp.NameWithConditions{{Name: t.Names[k+5], Conditions: seccomp.ArgumentConditions{{Argument: 7, Operation: seccomp.Equal, Value: 1}}}}, Action: a}}
	case 4:
		groups = []seccomp.SyscallGroup{good, {NamesWithCondtions: []seccomp.NameWithConditions{{Name: t.Names[k+5], Conditions: seccomp.ArgumentConditions{{Argument: 0, Operation: "NoSuchOperation", Value: 1}}}}, Action: b}}
	case 5:
		groups = []seccomp.SyscallGroup{{Names: []string{"no_such_syscall_verif"}, Action: a}, good, goodCond}
	default:
		groups = []seccomp.SyscallGroup{good, goodCond, {Names: []string{t.Names[k+5]}, NamesWithCondtions: []seccomp.NameWithConditions{{Name: t.Names[k+5], Conditions: seccomp.ArgumentConditions{{Argument: 0, Operation: seccomp.Equal, Value: 1}}}}, Action: a}}
	}
	rp := &seccomp.Policy{DefaultAction: seccomp.ActionAllow, Syscalls: groups}
	seccomp.VerifSetArch(rp, t.Info)
	rp.Assemble()
	rejectedInterleaved.Add(1)
}

func Compile(p *seccomp.Policy, t *Target) (c *Compiled) {
	c = &Compiled{Policy: p, T: t}
	if n := compileSeq.Add(1); n%5 == 0 && !noRejectedHistory {
		compileRejected(t, n)
	}
	defer func() {
		if e := recover(); e != nil {
			c.Panic = e
			c.Ins, c.Raw = nil, nil
		}
	}()
	seccomp.VerifSetArch(p, t.Info)
	c.Ins, c.Err = p.Assemble()
	if c.Err == nil {
		c.Raw, c.RawErr = bpf.Assemble(c.Ins)
	}
	return c
}

func (c *Compiled) OK() bool { return c.Panic == nil && c.Err == nil && c.RawErr == nil }

// RunBoth executes the program in both decodings and requires agreement.
func (c *Compiled) RunBoth(w *[16]uint32, cov *Cov, keepPCs bool) (Trace, error) {
	tr, err := RunRaw(c.Raw, w, cov, keepPCs)
	if err != nil {
		return tr, fmt.Errorf("raw: %w", err)
	}
	v, err := RunIns(c.Ins, w)
	if err != nil {
		return tr, fmt.Errorf("typed: %w", err)
	}
	if v != tr.Ret {
		return tr, fmt.Errorf("raw form returns %#x, typed form %#x", tr.Ret, v)
	}
	return tr, nil
}

// DumpRaw renders a raw program for replay files.
func DumpRaw(raw []bpf.RawInstruction) []string {
	out := make([]string, len(raw))
	for i, in := range raw {
		out[i] = fmt.Sprintf("%d: op=%#04x jt=%d jf=%d k=%#x", i, in.Op, in.Jt, in.Jf, in.K)
	}
	return out
}
