package vlib

import (
	seccomp "github.com/elastic/go-seccomp-bpf"
)

// Kernel return words (linux/seccomp.h), written out here independently of
// the package under test.
const (
	RetKillThread  = 0x00000000
	RetKillProcess = 0x80000000
	RetTrap        = 0x00030000
	RetErrno       = 0x00050000
	RetUserNotif   = 0x7fc00000
	RetTrace       = 0x7ff00000
	RetLog         = 0x7ffc0000
	RetAllow       = 0x7fff0000
	EPERM          = 1
	ENOSYS         = 38
	X32Bit         = 0x40000000
)

// NamedActions are the seven actions the documentation names.
var NamedActions = []seccomp.Action{RetKillThread, RetKillProcess, RetTrap, RetErrno, RetTrace, RetLog, RetAllow}

// Enc is the return word for an action: errno carries EPERM, everything else
// is the exact constant.
func Enc(a seccomp.Action) uint32 {
	if uint32(a) == RetErrno {
		return RetErrno | EPERM
	}
	return uint32(a)
}

// Holds evaluates one condition on a 64-bit argument with Go's operators.
func Holds(c seccomp.Condition, a uint64) bool {
	switch c.Operation {
	case "Equal":
		return a == c.Value
	case "NotEqual":
		return a != c.Value
	case "GreaterThan":
		return a > c.Value
	case "LessThan":
		return a < c.Value
	case "GreaterOrEqual":
		return a >= c.Value
	case "LessOrEqual":
		return a <= c.Value
	case "BitsSet":
		return a&c.Value != 0
	case "BitsNotSet":
		return a&c.Value == 0
	}
	panic("refsem: operation outside the documented eight: " + string(c.Operation))
}

// Why says which rule decided.
type Why struct {
	Kind  WhyKind
	Group int // index of deciding group (Kind Uncond/List)
	List  int // index of the satisfied list among the entry's lists (Kind List)
	// FailedCond is set when some conditional entry for this nr was evaluated
	// and failed before the decision.
	FailedCond bool
}

type WhyKind int

const (
	WhyForeign WhyKind = iota
	WhyX32
	WhyUncond
	WhyList
	WhyDefault
)

type refEntry struct {
	uncond bool
	lists  [][]seccomp.Condition
}

// Ref is a policy prepared for fast evaluation of the reference semantics.
type Ref struct {
	def    uint32
	groups []map[uint32]*refEntry
	acts   []uint32
	t      *Target
}

// NewRef prepares the reference semantics of p for target t. The policy must
// be defect-free in the sense of C07 (known names, valid operations).
func NewRef(p *seccomp.Policy, t *Target) *Ref {
	r := &Ref{def: Enc(p.DefaultAction), t: t}
	for _, g := range p.Syscalls {
		m := map[uint32]*refEntry{}
		for _, n := range g.Names {
			nr, ok := t.Num[n]
			if !ok {
				panic("refsem: unknown name " + n)
			}
			m[nr] = &refEntry{uncond: true}
		}
		for _, nc := range g.NamesWithCondtions {
			nr, ok := t.Num[nc.Name]
			if !ok {
				panic("refsem: unknown name " + nc.Name)
			}
			e := m[nr]
			if e == nil {
				e = &refEntry{}
				m[nr] = e
			}
			e.lists = append(e.lists, []seccomp.Condition(nc.Conditions))
		}
		r.groups = append(r.groups, m)
		r.acts = append(r.acts, Enc(g.Action))
	}
	return r
}

// Decide is the meaning of the policy as the properties state it: a foreign
// architecture gets the default; on x86_64 the x32 bit gets ERRNO(ENOSYS);
// otherwise the first group, in order, with an entry for the number that is
// unconditional or has a list whose conditions all hold; else the default.
func (r *Ref) Decide(e Event) (uint32, Why) {
	if e.Arch != r.t.ID {
		return r.def, Why{Kind: WhyForeign}
	}
	if r.t.X32Guard && e.NR >= X32Bit {
		return RetErrno | ENOSYS, Why{Kind: WhyX32}
	}
	failed := false
	for gi, m := range r.groups {
		ent := m[e.NR]
		if ent == nil {
			continue
		}
		if ent.uncond {
			return r.acts[gi], Why{Kind: WhyUncond, Group: gi, FailedCond: failed}
		}
		for li, l := range ent.lists {
			all := true
			for _, c := range l {
				if !Holds(c, e.Args[c.Argument]) {
					all = false
					break
				}
			}
			if all {
				return r.acts[gi], Why{Kind: WhyList, Group: gi, List: li, FailedCond: failed}
			}
		}
		failed = true
	}
	return r.def, Why{Kind: WhyDefault, FailedCond: failed}
}

// AllowedReturns is the closed set of C05 for this policy.
func (r *Ref) AllowedReturns() map[uint32]bool {
	s := map[uint32]bool{r.def: true}
	for _, a := range r.acts {
		s[a] = true
	}
	if r.t.X32Guard {
		s[RetErrno|ENOSYS] = true
	}
	return s
}
