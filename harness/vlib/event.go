// Package vlib holds the engines shared by the checks: the seccomp cBPF
// interpreter (E1), the reference semantics (E2), generators (E3/E4), the
// kernel verifier port (E5), the label machine (E7) and evidence writing.
package vlib

import "fmt"

// Event is one syscall event as the kernel presents it to a seccomp filter
// (struct seccomp_data), in value form.
type Event struct {
	NR   uint32    `json:"nr"`
	Arch uint32    `json:"arch"`
	IP   uint64    `json:"ip"`
	Args [6]uint64 `json:"args"`
}

func (e Event) String() string {
	return fmt.Sprintf("{nr=%#x arch=%#x ip=%#x args=[%#x %#x %#x %#x %#x %#x]}", e.NR, e.Arch, e.IP,
		e.Args[0], e.Args[1], e.Args[2], e.Args[3], e.Args[4], e.Args[5])
}

// Words lays the event out as the sixteen 32-bit words of seccomp_data for
// the given byte order. This is the only endian-aware function of the
// harness: 64-bit fields are stored low word first on little-endian machines
// and high word first on big-endian ones.
func (e Event) Words(bigEndian bool) [16]uint32 {
	var w [16]uint32
	w[0] = e.NR
	w[1] = e.Arch
	put := func(i int, v uint64) {
		if bigEndian {
			w[i], w[i+1] = uint32(v>>32), uint32(v)
		} else {
			w[i], w[i+1] = uint32(v), uint32(v>>32)
		}
	}
	put(2, e.IP)
	for a := 0; a < 6; a++ {
		put(4+2*a, e.Args[a])
	}
	return w
}
