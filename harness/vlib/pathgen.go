package vlib

import (
	"math/rand"

	"golang.org/x/net/bpf"
)

// Path-directed event generation: for a compiled program, find for every
// (pc, direction) edge an event whose execution takes that edge, by walking
// the program's DAG forward with per-word constraints and solving them. The
// events are then judged like all others (interpreter vs reference), so every
// reachable branch of every examined program contributes a checked verdict.

type wordCons struct {
	hasEq  bool
	eq     uint32
	neq    []uint32
	lo, hi uint32   // inclusive bounds
	set    []uint32 // v&K != 0
	clr    uint32   // bits that must be clear
	bad    bool
}

func newWordCons() wordCons { return wordCons{lo: 0, hi: 0xffffffff} }

// add records the outcome of `A op K` for this word.
func (c *wordCons) add(op uint16, k uint32, outcome bool) {
	switch op {
	case opJeqK:
		if outcome {
			if c.hasEq && c.eq != k {
				c.bad = true
			}
			c.hasEq, c.eq = true, k
		} else {
			c.neq = append(c.neq, k)
		}
	case opJgtK:
		if outcome { // v > k
			if k == 0xffffffff {
				c.bad = true
			} else if k+1 > c.lo {
				c.lo = k + 1
			}
		} else if k < c.hi { // v <= k
			c.hi = k
		}
	case opJgeK:
		if outcome { // v >= k
			if k > c.lo {
				c.lo = k
			}
		} else { // v < k
			if k == 0 {
				c.bad = true
			} else if k-1 < c.hi {
				c.hi = k - 1
			}
		}
	case opJsetK:
		if outcome {
			c.set = append(c.set, k)
		} else {
			c.clr |= k
		}
	}
	if c.lo > c.hi {
		c.bad = true
	}
}

func (c *wordCons) ok(v uint32) bool {
	if c.hasEq && v != c.eq {
		return false
	}
	if v < c.lo || v > c.hi || v&c.clr != 0 {
		return false
	}
	for _, n := range c.neq {
		if v == n {
			return false
		}
	}
	for _, k := range c.set {
		if v&k == 0 {
			return false
		}
	}
	return true
}

// solve finds a value, preferring `prefer` values (adversarial fill) when they fit.
func (c *wordCons) solve(r *rand.Rand, prefer []uint32) (uint32, bool) {
	if c.bad {
		return 0, false
	}
	if c.hasEq {
		return c.eq, c.ok(c.eq)
	}
	for _, v := range prefer {
		if c.ok(v) {
			return v, true
		}
	}
	var need uint32
	for _, k := range c.set {
		m := k &^ c.clr
		if m == 0 {
			return 0, false
		}
		if need&k == 0 {
			need |= m & -m
		}
	}
	cands := []uint32{c.lo, c.hi, c.lo | need, c.hi &^ c.clr, (c.lo + 1) | need, need, c.lo + need}
	for _, n := range c.neq {
		cands = append(cands, n+1, n-1, (n+1)|need)
	}
	for _, v := range cands {
		if c.ok(v) {
			return v, true
		}
	}
	span := uint64(c.hi) - uint64(c.lo) + 1
	for i := 0; i < 300; i++ {
		v := uint32(uint64(c.lo)+uint64(r.Int63())%span)&^c.clr | need
		if c.ok(v) {
			return v, true
		}
	}
	return 0, false
}

func (c *wordCons) clone() wordCons {
	n := *c
	n.neq = append([]uint32(nil), c.neq...)
	n.set = append([]uint32(nil), c.set...)
	return n
}

// PathStats reports what the generator achieved on one program.
type PathStats struct {
	Edges      int // edges of the program
	Covered    int // executed by generated events
	Unsolved   int // edges for which no event was found (infeasible or search gave up)
	Events     int
	StepBudget bool // the per-program work budget ran out
}

type pathState struct {
	pc   int
	word int
	cons [16]wordCons
}

// CoverEdges generates events that together execute as many edges of the raw
// program as possible. cov may hold edges that are already covered. emit is
// called with the 16 record words of every generated event; it must execute
// the program with cov so that progress is recorded.
func CoverEdges(r *rand.Rand, raw []bpf.RawInstruction, cov *Cov, fill func(word int) []uint32, maxWork int, emit func(w [16]uint32)) PathStats {
	var st PathStats
	n := len(raw)
	succ := func(pc int) (a, b int, cond bool) {
		in := raw[pc]
		switch in.Op {
		case opJeqK, opJgtK, opJgeK, opJsetK:
			return pc + 1 + int(in.Jt), pc + 1 + int(in.Jf), true
		case opJa:
			return pc + 1 + int(in.K), -1, false
		case opRetK:
			return -1, -1, false
		}
		return pc + 1, -1, false
	}
	type edge struct {
		pc  int
		dir uint8
	}
	var targets []edge
	for pc := range raw {
		_, _, cond := succ(pc)
		st.Edges++
		targets = append(targets, edge{pc, 1})
		if cond {
			st.Edges++
			targets = append(targets, edge{pc, 2})
		}
	}
	work := 0
	reach := make([]bool, n)
	for _, tg := range targets {
		if cov.Edge[tg.pc]&tg.dir != 0 {
			continue
		}
		if work > maxWork {
			st.StepBudget = true
			break
		}
		// backward reachability to tg.pc (forward-only jumps: one reverse sweep)
		for i := range reach {
			reach[i] = false
		}
		reach[tg.pc] = true
		for pc := tg.pc - 1; pc >= 0; pc-- {
			a, b, _ := succ(pc)
			if (a >= 0 && a < n && reach[a]) || (b >= 0 && b < n && reach[b]) {
				reach[pc] = true
			}
		}
		if !reach[0] {
			st.Unsolved++
			continue
		}
		// DFS from pc 0
		init := pathState{pc: 0, word: -1}
		for i := range init.cons {
			init.cons[i] = newWordCons()
		}
		stack := []pathState{init}
		found := false
		visits := 0
		for len(stack) > 0 && !found && visits < 6000 {
			s := stack[len(stack)-1]
			stack = stack[:len(stack)-1]
			for {
				visits++
				work++
				if s.pc == tg.pc {
					in := raw[s.pc]
					a, b, cond := succ(s.pc)
					_ = a
					_ = b
					if cond {
						if s.word < 0 {
							break
						}
						c := s.cons[s.word].clone()
						c.add(in.Op, in.K, tg.dir == 1)
						if c.bad {
							break
						}
						s.cons[s.word] = c
					}
					// solve all words
					var w [16]uint32
					okAll := true
					for i := range w {
						v, ok := s.cons[i].solve(r, fill(i))
						if !ok {
							okAll = false
							break
						}
						w[i] = v
					}
					if !okAll {
						break
					}
					emit(w)
					st.Events++
					found = cov.Edge[tg.pc]&tg.dir != 0
					break
				}
				in := raw[s.pc]
				a, b, cond := succ(s.pc)
				if in.Op == opLdWAbs {
					s.word = int(in.K / 4)
					if s.word > 15 {
						break
					}
				}
				if !cond {
					if a < 0 || a >= n || !reach[a] {
						break
					}
					s.pc = a
					continue
				}
				if s.word < 0 {
					break
				}
				// try both outcomes; push the second on the stack
				var next []pathState
				for _, out := range []bool{true, false} {
					t := a
					if !out {
						t = b
					}
					if t < 0 || t >= n || !reach[t] {
						continue
					}
					c := s.cons[s.word].clone()
					c.add(in.Op, in.K, out)
					if c.bad {
						continue
					}
					if _, ok := c.solve(r, nil); !ok {
						continue
					}
					ns := s
					ns.cons[s.word] = c
					ns.pc = t
					next = append(next, ns)
				}
				if len(next) == 0 {
					break
				}
				if len(next) == 2 {
					stack = append(stack, next[1])
				}
				s = next[0]
			}
		}
		if !found {
			st.Unsolved++
		}
	}
	for pc := range raw {
		_, _, cond := succ(pc)
		if cov.Edge[pc]&1 != 0 {
			st.Covered++
		}
		if cond && cov.Edge[pc]&2 != 0 {
			st.Covered++
		}
	}
	return st
}

// EventFromWords rebuilds an event from the 16 little-endian record words.
func EventFromWords(w [16]uint32) Event {
	e := Event{NR: w[0], Arch: w[1], IP: uint64(w[3])<<32 | uint64(w[2])}
	for a := 0; a < 6; a++ {
		e.Args[a] = uint64(w[5+2*a])<<32 | uint64(w[4+2*a])
	}
	return e
}
