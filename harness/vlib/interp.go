package vlib

import (
	"fmt"

	"golang.org/x/net/bpf"
)

// Classic BPF opcodes of the seccomp subset (linux/bpf_common.h).
const (
	opLdWAbs = 0x20 // BPF_LD | BPF_W | BPF_ABS
	opJa     = 0x05 // BPF_JMP | BPF_JA
	opJeqK   = 0x15
	opJgtK   = 0x25
	opJgeK   = 0x35
	opJsetK  = 0x45
	opRetK   = 0x06
)

// Cov records which (pc, direction) edges of one program were executed.
// bit0: taken "true"/sequential edge, bit1: "false" edge of a conditional.
type Cov struct {
	Edge []uint8
	Rets map[uint32]int
}

func NewCov(n int) *Cov { return &Cov{Edge: make([]uint8, n), Rets: map[uint32]int{}} }

// Covered returns executed edges and the total number of edges of prog.
func (c *Cov) Covered(prog []bpf.RawInstruction) (got, total int) {
	for pc, in := range prog {
		switch in.Op {
		case opJeqK, opJgtK, opJgeK, opJsetK:
			total += 2
			if c.Edge[pc]&1 != 0 {
				got++
			}
			if c.Edge[pc]&2 != 0 {
				got++
			}
		default:
			total++
			if c.Edge[pc]&1 != 0 {
				got++
			}
		}
	}
	return
}

// Trace describes one execution.
type Trace struct {
	Ret   uint32
	Steps int
	// RetPC is the pc of the return instruction that decided.
	RetPC int
	// PCs holds the executed pcs when requested (nil otherwise).
	PCs []int
}

// RunRaw executes a raw seccomp cBPF program on the 16-word record. It
// implements exactly what seccomp filters may contain and what the compiler
// is expected to emit; anything else is a fault. cov and pcs may be nil.
func RunRaw(prog []bpf.RawInstruction, w *[16]uint32, cov *Cov, keepPCs bool) (Trace, error) {
	var A uint32
	var tr Trace
	pc := 0
	for {
		if pc < 0 || pc >= len(prog) {
			return tr, fmt.Errorf("pc %d outside program of %d instructions", pc, len(prog))
		}
		tr.Steps++
		if keepPCs {
			tr.PCs = append(tr.PCs, pc)
		}
		if tr.Steps > len(prog)+1 {
			return tr, fmt.Errorf("more steps than instructions (backward jump?)")
		}
		in := prog[pc]
		switch in.Op {
		case opLdWAbs:
			if in.K&3 != 0 || in.K >= 64 {
				return tr, fmt.Errorf("pc %d: load offset %d outside/unaligned in seccomp_data", pc, in.K)
			}
			A = w[in.K/4]
			if cov != nil {
				cov.Edge[pc] |= 1
			}
			pc++
		case opJa:
			if cov != nil {
				cov.Edge[pc] |= 1
			}
			// 64-bit arithmetic: K may be any uint32.
			npc := int64(pc) + 1 + int64(in.K)
			if npc >= int64(len(prog)) {
				return tr, fmt.Errorf("pc %d: ja +%d leaves the program", pc, in.K)
			}
			pc = int(npc)
		case opJeqK, opJgtK, opJgeK, opJsetK:
			var c bool
			switch in.Op {
			case opJeqK:
				c = A == in.K
			case opJgtK:
				c = A > in.K
			case opJgeK:
				c = A >= in.K
			case opJsetK:
				c = A&in.K != 0
			}
			if c {
				if cov != nil {
					cov.Edge[pc] |= 1
				}
				pc += 1 + int(in.Jt)
			} else {
				if cov != nil {
					cov.Edge[pc] |= 2
				}
				pc += 1 + int(in.Jf)
			}
		case opRetK:
			if cov != nil {
				cov.Edge[pc] |= 1
				cov.Rets[in.K]++
			}
			tr.Ret = in.K
			tr.RetPC = pc
			return tr, nil
		default:
			return tr, fmt.Errorf("pc %d: opcode %#x is not in the seccomp subset the compiler may use", pc, in.Op)
		}
	}
}

// RunIns executes the typed instruction form with the documented semantics of
// each bpf.Instruction (second, independent decoding path).
func RunIns(prog []bpf.Instruction, w *[16]uint32) (uint32, error) {
	var A uint32
	pc, steps := 0, 0
	for {
		if pc < 0 || pc >= len(prog) {
			return 0, fmt.Errorf("pc %d outside program of %d instructions", pc, len(prog))
		}
		steps++
		if steps > len(prog)+1 {
			return 0, fmt.Errorf("more steps than instructions")
		}
		switch in := prog[pc].(type) {
		case bpf.LoadAbsolute:
			if in.Size != 4 || in.Off&3 != 0 || in.Off >= 64 {
				return 0, fmt.Errorf("pc %d: bad load %v", pc, in)
			}
			A = w[in.Off/4]
			pc++
		case bpf.RetConstant:
			return in.Val, nil
		case bpf.Jump:
			npc := int64(pc) + 1 + int64(in.Skip)
			if npc >= int64(len(prog)) {
				return 0, fmt.Errorf("pc %d: ja +%d leaves the program", pc, in.Skip)
			}
			pc = int(npc)
		case bpf.JumpIf:
			var c bool
			switch in.Cond {
			case bpf.JumpEqual:
				c = A == in.Val
			case bpf.JumpNotEqual:
				c = A != in.Val
			case bpf.JumpGreaterThan:
				c = A > in.Val
			case bpf.JumpLessThan:
				c = A < in.Val
			case bpf.JumpGreaterOrEqual:
				c = A >= in.Val
			case bpf.JumpLessOrEqual:
				c = A <= in.Val
			case bpf.JumpBitsSet:
				c = A&in.Val != 0
			case bpf.JumpBitsNotSet:
				c = A&in.Val == 0
			default:
				return 0, fmt.Errorf("pc %d: unknown jump test %v", pc, in.Cond)
			}
			if c {
				pc += 1 + int(in.SkipTrue)
			} else {
				pc += 1 + int(in.SkipFalse)
			}
		default:
			return 0, fmt.Errorf("pc %d: instruction %T not in the seccomp subset", pc, in)
		}
	}
}
