package vlib

import (
	"crypto/sha256"
	"encoding/hex"
	"encoding/json"
	"fmt"
	"os"
	"os/exec"
	"path/filepath"
	"sort"
	"strconv"
	"strings"
	"sync"
	"time"
)

// Exit codes of every check.
const (
	ExitHeld         = 0
	ExitViolation    = 1
	ExitInconclusive = 3
)

// Run collects what one check execution observed and turns it into the
// evidence file, the VIOLATION / KNOWN-FINDING / INCONCLUSIVE lines and the
// exit status.
type Run struct {
	ID    string
	Tier  string
	Seed  int64
	Level string

	mu           sync.Mutex
	start        time.Time
	cov          map[string]any
	counters     map[string]int64
	samples      []any
	assumptions  []string
	violations   int
	violSigs     map[string]bool
	knownHit     map[string]bool
	known        map[string]string // sig -> text (finding: lines for this property)
	inconclusive []string
	// soft: per-case watchdog firings (a child that did not finish on a loaded machine). Up to SoftMax of them are
	// tolerated and reported in the evidence; more make the run inconclusive.
	soft    []string
	SoftMax int
}

func NewRun(id, level string) *Run {
	tier := os.Getenv("VERIF_TIER")
	if tier == "" {
		tier = "quick"
	}
	seed := int64(1)
	if s := os.Getenv("VERIF_SEED"); s != "" {
		if v, err := strconv.ParseInt(s, 10, 64); err == nil {
			seed = v
		}
	}
	r := &Run{ID: id, Tier: tier, Seed: seed, Level: level, start: time.Now(), cov: map[string]any{},
		counters: map[string]int64{}, violSigs: map[string]bool{}, knownHit: map[string]bool{}, known: map[string]string{}}
	r.SoftMax = 3
	if tier == "thorough" {
		r.SoftMax = 30
	}
	r.loadKnown()
	return r
}

func (r *Run) Thorough() bool { return r.Tier == "thorough" }

// SubRun names the secondary build this process is (e.g. "386": the same check compiled for and running as a
// linux/386 binary, where Go's int and uintptr are 32 bits wide); "" for the primary run.
func SubRun() string { return os.Getenv("VERIF_SUBRUN") }

// N picks a case count by tier (a quarter of it in a secondary build).
func (r *Run) N(quick, thorough int) int {
	n := quick
	if r.Thorough() {
		n = thorough
	}
	if SubRun() != "" {
		n = n/4 + 1
	}
	return n
}

func (r *Run) loadKnown() {
	b, err := os.ReadFile(filepath.Join(VerifDir(), "KNOWN_FINDINGS.txt"))
	if err != nil {
		return
	}
	for _, l := range strings.Split(string(b), "\n") {
		l = strings.TrimSpace(l)
		if !strings.HasPrefix(l, "finding:") {
			continue // "fixed:" lines and comments suppress nothing
		}
		f := strings.Fields(l)
		if len(f) < 3 || f[1] != "property="+r.ID || !strings.HasPrefix(f[2], "sig=") {
			continue
		}
		r.known[strings.TrimPrefix(f[2], "sig=")] = strings.Join(f[3:], " ")
	}
}

// Count adds to a named counter (reported under coverage).
func (r *Run) Count(name string, n int64) {
	r.mu.Lock()
	r.counters[name] += n
	r.mu.Unlock()
}

func (r *Run) Counter(name string) int64 {
	r.mu.Lock()
	defer r.mu.Unlock()
	return r.counters[name]
}

// Set stores a coverage key.
func (r *Run) Set(key string, v any) {
	r.mu.Lock()
	r.cov[key] = v
	r.mu.Unlock()
}

// Sample keeps up to max literal cases.
func (r *Run) Sample(max int, v any) {
	r.mu.Lock()
	if len(r.samples) < max {
		r.samples = append(r.samples, v)
	}
	r.mu.Unlock()
}

func (r *Run) Assume(s ...string) { r.assumptions = append(r.assumptions, s...) }

// Violation records a refuting observation. sig is the root-cause signature
// compared against the `finding:` lines of KNOWN_FINDINGS.txt; replay is
// written to /verif/replays and named on the VIOLATION line.
func (r *Run) Violation(sig string, what string, replay any) {
	r.mu.Lock()
	defer r.mu.Unlock()
	if txt, ok := r.known[sig]; ok {
		if !r.knownHit[sig] {
			r.knownHit[sig] = true
			fmt.Printf("KNOWN-FINDING: property=%s sig=%s %s\n", r.ID, sig, txt)
		}
		return
	}
	r.violations++
	if r.violSigs[sig] || len(r.violSigs) >= 8 {
		r.violSigs[sig] = true
		return // one line per signature, at most 8 signatures
	}
	r.violSigs[sig] = true
	if lz, ok := replay.(LazyReplay); ok {
		replay = lz()
	}
	body := map[string]any{"property": r.ID, "signature": sig, "what": what, "seed": r.Seed, "tier": r.Tier, "replay": replay}
	b, _ := json.MarshalIndent(body, "", " ")
	h := sha256.Sum256(b)
	dir := filepath.Join(VerifDir(), "replays")
	os.MkdirAll(dir, 0o755)
	path := filepath.Join(dir, fmt.Sprintf("%s-%s.json", r.ID, hex.EncodeToString(h[:6])))
	os.WriteFile(path, b, 0o644)
	fmt.Printf("VIOLATION property=%s replay=%s\n", r.ID, path)
	fmt.Printf("  %s: %s\n", sig, what)
}

// LazyReplay builds the replay record only when a violation is really written.
type LazyReplay func() any

func (r *Run) Violations() int {
	r.mu.Lock()
	defer r.mu.Unlock()
	return r.violations
}

// Inconclusive records that the run cannot give a verdict (watchdog, build
// failure, too little observed). Never folded into held or violated.
func (r *Run) Inconclusive(why string) {
	r.mu.Lock()
	r.inconclusive = append(r.inconclusive, why)
	r.mu.Unlock()
}

// SoftInconclusive records a per-case watchdog firing.
func (r *Run) SoftInconclusive(why string) {
	r.mu.Lock()
	r.soft = append(r.soft, why)
	r.mu.Unlock()
}

// Require marks the run inconclusive unless the counter reached min: a run
// that observed too little proves nothing.
func (r *Run) Require(counter string, min int64) {
	if SubRun() != "" {
		return // reduced counts; the primary run carries the minimum-observation rules
	}
	if got := r.Counter(counter); got < min {
		r.Inconclusive(fmt.Sprintf("observed too little: %s=%d < %d", counter, got, min))
	}
}

// Finish writes the evidence file and exits.
func (r *Run) Finish(evaluations, distinctNontrivial int64, rule string) {
	r.mu.Lock()
	cov := map[string]any{}
	for k, v := range r.cov {
		cov[k] = v
	}
	names := make([]string, 0, len(r.counters))
	for k := range r.counters {
		names = append(names, k)
	}
	sort.Strings(names)
	cnt := map[string]int64{}
	for _, k := range names {
		cnt[k] = r.counters[k]
	}
	if n := RejectedInterleaved(); n > 0 {
		cnt["rejected_policies_compiled_in_front_of_judged_compilations"] = n
	}
	cov["counters"] = cnt
	cov["evaluations"] = evaluations
	cov["distinct_nontrivial"] = distinctNontrivial
	cov["rule"] = rule
	if len(r.samples) == 0 {
		r.samples = append(r.samples, "no sample recorded")
	}
	cov["samples"] = r.samples
	if len(r.soft) > 0 {
		max := r.SoftMax
		if max == 0 {
			max = 2
		}
		cov["per_case_watchdog_firings"] = r.soft[:min(len(r.soft), 10)]
		cov["per_case_watchdog_firings_count"] = len(r.soft)
		cov["per_case_watchdog_firings_tolerated"] = max
		if len(r.soft) > max {
			r.inconclusive = append(r.inconclusive, fmt.Sprintf("%d cases hit a watchdog (more than the %d tolerated), first: %s", len(r.soft), max, r.soft[0]))
		}
	}
	if len(r.inconclusive) > 0 {
		cov["inconclusive"] = r.inconclusive
	}
	known := []string{}
	for s := range r.knownHit {
		known = append(known, s)
	}
	sort.Strings(known)
	if len(known) > 0 {
		cov["known_findings_seen"] = known
	}
	ev := map[string]any{
		"property_id": r.ID, "tier": r.Tier, "seed": r.Seed, "level": r.Level,
		"coverage": cov, "assumptions": r.assumptions,
		"wall_s":     float64(int(time.Since(r.start).Seconds()*100)) / 100,
		"violations": r.violations,
	}
	if ev["assumptions"] == nil {
		ev["assumptions"] = []string{}
	}
	viol, inc := r.violations, append([]string(nil), r.inconclusive...)
	r.mu.Unlock()

	b, _ := json.MarshalIndent(ev, "", " ")
	dir := EvidenceDir()
	name := r.ID + ".json"
	if SubRun() != "" { // a secondary build reports to its parent, which owns the evidence file
		dir = BinDir()
		name = r.ID + "-sub-" + SubRun() + ".json"
	}
	os.MkdirAll(dir, 0o755)
	if err := os.WriteFile(filepath.Join(dir, name), append(b, '\n'), 0o644); err != nil {
		fmt.Printf("INCONCLUSIVE property=%s cannot write evidence: %v\n", r.ID, err)
		os.Exit(ExitInconclusive)
	}
	if viol > 0 {
		fmt.Printf("RESULT property=%s violated: %d refuting observations (evaluations=%d)\n", r.ID, viol, evaluations)
		os.Exit(ExitViolation)
	}
	if len(inc) > 0 {
		for _, w := range inc {
			fmt.Printf("INCONCLUSIVE property=%s %s\n", r.ID, w)
		}
		os.Exit(ExitInconclusive)
	}
	fmt.Printf("RESULT property=%s held on everything explored: evaluations=%d distinct_nontrivial=%d wall=%.1fs\n",
		r.ID, evaluations, distinctNontrivial, time.Since(r.start).Seconds())
	os.Exit(ExitHeld)
}

// Parallel runs f(i) for i in [0,n) on all cores.
func Parallel(n int, f func(i int)) {
	workers := 16
	if n < workers {
		workers = n
	}
	var wg sync.WaitGroup
	var mu sync.Mutex
	next := 0
	for w := 0; w < workers; w++ {
		wg.Add(1)
		go func() {
			defer wg.Done()
			for {
				mu.Lock()
				i := next
				next++
				mu.Unlock()
				if i >= n {
					return
				}
				f(i)
			}
		}()
	}
	wg.Wait()
}

// RunSecondaryBuild runs the same check as a linux/386 build of the harness (Go's int is 32 bits wide there) with
// reduced counts, relays its violations and records its counters under coverage["secondary_build_linux_386"].
func (r *Run) RunSecondaryBuild() {
	if SubRun() != "" {
		return
	}
	bin, err := BuildHarnessCmd("vc", "386")
	if err != nil {
		r.Inconclusive("cannot build the linux/386 variant of the check: " + err.Error())
		return
	}
	cmd := exec.Command(bin, r.ID)
	cmd.Env = append(os.Environ(), "VERIF_SUBRUN=386")
	out, err := cmd.CombinedOutput()
	code := 0
	if ee, ok := err.(*exec.ExitError); ok {
		code = ee.ExitCode()
	} else if err != nil {
		r.Inconclusive("the linux/386 variant did not run: " + err.Error())
		return
	}
	lines := strings.Split(string(out), "\n")
	for i, l := range lines {
		if strings.HasPrefix(l, "VIOLATION ") {
			detail := ""
			if i+1 < len(lines) {
				detail = strings.TrimSpace(lines[i+1])
			}
			sig := "on-linux-386-build"
			if k := strings.Index(detail, ":"); k > 0 {
				sig += ":" + detail[:k]
			}
			r.Violation(sig, "as a linux/386 binary (32-bit int): "+detail, map[string]any{"check": r.ID, "secondary_build": "linux/386", "sub_run_line": l})
		}
	}
	switch code {
	case 0, 1:
	case ExitInconclusive:
		r.Inconclusive("the linux/386 variant was inconclusive: " + lastLines(string(out), 2))
	default:
		if strings.Contains(string(out), "out of memory") || strings.Contains(string(out), "cannot allocate memory") {
			// the harness itself exhausted the 32-bit address space or the machine's memory: says nothing about the property
			r.Inconclusive("the linux/386 variant ran out of memory: " + lastLines(string(out), 1))
			break
		}
		r.Violation("on-linux-386-build:crash", "the check ended abnormally as a linux/386 binary: "+lastLines(string(out), 6), map[string]any{"check": r.ID, "secondary_build": "linux/386"})
	}
	if b, err := os.ReadFile(filepath.Join(BinDir(), r.ID+"-sub-386.json")); err == nil {
		var ev map[string]any
		if json.Unmarshal(b, &ev) == nil {
			if cov, ok := ev["coverage"].(map[string]any); ok {
				r.Set("secondary_build_linux_386", map[string]any{"evaluations": cov["evaluations"], "counters": cov["counters"], "violations": ev["violations"]})
				r.Count("secondary_build_linux_386_ran", 1)
			}
		}
	}
}

func lastLines(s string, n int) string {
	l := strings.Split(strings.TrimSpace(s), "\n")
	if len(l) > n {
		l = l[len(l)-n:]
	}
	return strings.Join(l, " | ")
}

// EvidenceDir is /verif/evidence, or VERIF_EVIDENCE_DIR when runs against a tree other than /repo's (seeded changes,
// mutants) must not overwrite the evidence of the unchanged tree.
func EvidenceDir() string {
	if d := os.Getenv("VERIF_EVIDENCE_DIR"); d != "" {
		os.MkdirAll(d, 0o755)
		return d
	}
	return filepath.Join(VerifDir(), "evidence")
}
