package vlib

import (
	"encoding/json"
	"fmt"
	"os"
	"path/filepath"
	"sort"

	"github.com/elastic/go-seccomp-bpf/arch"
)

// Oracles is the content of /verif/oracles/oracles.json.
type Oracles struct {
	Provenance map[string]string                    `json:"provenance"`
	Tables     map[string]map[string]map[string]int `json:"tables"` // arch -> source -> name -> nr
	AuditArch  map[string]uint32                    `json:"audit_arch"`
	Constants  map[string]uint64                    `json:"constants"`
}

// VerifDir is the root of the verification tree.
func VerifDir() string {
	if d := os.Getenv("VERIF_DIR"); d != "" {
		return d
	}
	return "/verif"
}

func LoadOracles() (*Oracles, error) {
	b, err := os.ReadFile(filepath.Join(VerifDir(), "oracles", "oracles.json"))
	if err != nil {
		return nil, err
	}
	var o Oracles
	if err := json.Unmarshal(b, &o); err != nil {
		return nil, err
	}
	return &o, nil
}

// Target is an architecture a policy can be compiled for, with the harness'
// own name->number mapping.
type Target struct {
	Name     string
	Info     *arch.Info
	ID       uint32 // AUDIT_ARCH from the oracle (linux/audit.h)
	X32Guard bool   // x86_64: numbers >= 0x40000000 answer ENOSYS
	// Num maps every name of the package's table to its number. Numbers come
	// from the oracle sources wherever one lists the name and from the
	// package's table otherwise (OracleBacked counts the former).
	Num          map[string]uint32
	Names        []string // sorted
	OracleBacked int
}

var targetSpecs = []struct{ name, audit string }{
	{"x86_64", "X86_64"}, {"i386", "I386"}, {"arm", "ARM"}, {"aarch64", "AARCH64"},
}

// Targets returns the four architectures with syscall tables that C01 names.
func Targets(o *Oracles) ([]*Target, error) {
	var out []*Target
	for _, s := range targetSpecs {
		info, err := arch.GetInfo(s.name)
		if err != nil {
			return nil, fmt.Errorf("GetInfo(%s): %v", s.name, err)
		}
		t := &Target{Name: s.name, Info: info, ID: o.AuditArch[s.audit], X32Guard: s.name == "x86_64", Num: map[string]uint32{}}
		for name, nr := range info.SyscallNames {
			v := uint32(nr)
			backed := false
			for _, src := range []string{"uapi", "xsys", "gosyscall"} {
				if onr, ok := o.Tables[s.name][src][name]; ok {
					v = uint32(onr)
					backed = true
					break
				}
			}
			if backed {
				t.OracleBacked++
			}
			t.Num[name] = v
			t.Names = append(t.Names, name)
		}
		sort.Strings(t.Names)
		out = append(out, t)
	}
	return out, nil
}

// X32Target is the x32 ABI as a compilation target (reachable through the arch setter only): it shares the audit
// architecture with x86_64, its numbers carry the x32 bit, and - by C04 - every event with that bit gets ERRNO(ENOSYS).
func X32Target(o *Oracles) (*Target, error) {
	info, err := arch.GetInfo("x32")
	if err != nil {
		return nil, err
	}
	t := &Target{Name: "x32", Info: info, ID: o.AuditArch["X86_64"], X32Guard: true, Num: map[string]uint32{}}
	for name, nr := range info.SyscallNames {
		v := uint32(nr)
		if onr, ok := o.Tables["x32"]["uapi"][name]; ok {
			v = uint32(onr)
			t.OracleBacked++
		}
		t.Num[name] = v | X32Bit
		t.Names = append(t.Names, name)
	}
	sort.Strings(t.Names)
	return t, nil
}

// AllAuditArch returns every AUDIT_ARCH value of linux/audit.h, sorted.
func (o *Oracles) AllAuditArch() []uint32 {
	var v []uint32
	for _, x := range o.AuditArch {
		v = append(v, x)
	}
	sort.Slice(v, func(i, j int) bool { return v[i] < v[j] })
	return v
}
