package vlib

import (
	"fmt"
	"math/rand"

	seccomp "github.com/elastic/go-seccomp-bpf"
	"golang.org/x/net/bpf"
)

// E7: label machine. A label-level program is a list of LOps; jump targets
// are op indices (always greater than the jump's own index).

type LKind int

const (
	LLdHi LKind = iota
	LLdLo
	LJmp
	LRet
)

type LOp struct {
	Kind LKind  `json:"kind"`
	Arg  uint32 `json:"arg,omitempty"`
	Cond int    `json:"cond,omitempty"`
	Val  uint32 `json:"val,omitempty"`
	T    int    `json:"t,omitempty"`   // target if the test is true
	F    int    `json:"f,omitempty"`   // target if false
	Ret  uint32 `json:"ret,omitempty"` // action passed to Ret
	// ViaTrue builds the jump with JmpIfTrue (requires F == index+1).
	ViaTrue bool `json:"via_true,omitempty"`
}

// BuildLabelProgram applies the op list to the real exported builder.
func BuildLabelProgram(ops []LOp) (out []bpf.Instruction, err error, panicked any) {
	out, err, panicked, _ = BuildLabelProgramAgain(ops)
	return
}

// BuildLabelProgramAgain also returns a function that calls Assemble on the very same Program once more.
func BuildLabelProgramAgain(ops []LOp) (out []bpf.Instruction, err error, panicked any, again func() ([]bpf.Instruction, error, any)) {
	out, err, panicked, again, _ = BuildLabelProgramEarly(ops, -1)
	return
}

// BuildLabelProgramEarly calls Assemble once already when only the first `early` ops have been added (early < 0: never).
// Labels placed later are still missing then, so that call normally fails; the caller goes on building and assembles the
// complete program. earlyErr is what the early call returned ("" for nil, "-" if it was not made).
func BuildLabelProgramEarly(ops []LOp, early int) (out []bpf.Instruction, err error, panicked any, again func() ([]bpf.Instruction, error, any), earlyErr string) {
	earlyErr = "-"
	defer func() {
		if e := recover(); e != nil {
			panicked = e
		}
	}()
	p := seccomp.NewProgram()
	lab := map[int]seccomp.Label{}
	for i, o := range ops {
		if o.Kind == LJmp {
			targets := []int{o.T, o.F}
			if o.ViaTrue && o.F == i+1 {
				targets = targets[:1]
			}
			for _, t := range targets {
				if _, ok := lab[t]; !ok {
					lab[t] = p.NewLabel()
				}
			}
		}
	}
	for i, o := range ops {
		if i == early {
			func() {
				defer func() {
					if r := recover(); r != nil {
						earlyErr = fmt.Sprint("panic: ", r)
					}
				}()
				if _, e := p.Assemble(); e != nil {
					earlyErr = e.Error()
				} else {
					earlyErr = ""
				}
			}()
		}
		if l, ok := lab[i]; ok {
			p.SetLabel(l)
		}
		switch o.Kind {
		case LLdHi:
			p.LdHi(o.Arg)
		case LLdLo:
			p.LdLo(o.Arg)
		case LRet:
			p.Ret(seccomp.Action(o.Ret))
		case LJmp:
			if o.ViaTrue && o.F == i+1 {
				p.JmpIfTrue(bpf.JumpTest(o.Cond), o.Val, lab[o.T])
			} else {
				p.JmpIf(bpf.JumpTest(o.Cond), o.Val, lab[o.T], lab[o.F])
			}
		}
	}
	out, err = p.Assemble()
	out = append([]bpf.Instruction(nil), out...) // the caller's copy: a second Assemble may rewrite the builder's own slice
	again = func() (o []bpf.Instruction, e error, pan any) {
		defer func() {
			if r := recover(); r != nil {
				pan = r
			}
		}()
		o, e = p.Assemble()
		return
	}
	return
}

// loadOffset is the record offset LdHi/LdLo must use on a little-endian
// layout (the harness default).
func loadOffset(o LOp, bigEndian bool) uint32 {
	off := 16 + 8*o.Arg
	hi := o.Kind == LLdHi
	if hi != bigEndian {
		off += 4
	}
	return off
}

type BisimStats struct {
	Pairs      int
	JaBridges  int
	RetBridges int
	MaxSkip    int // largest label distance (in ops) of a taken jump edge
}

// Bisim walks (label pc, assembled pc) pairs from (0,0), following inserted
// unconditional jumps on the assembled side, and requires identical
// loads/tests/returns. It visits every reachable pair, so for this program it
// decides equivalence on all inputs.
func Bisim(ops []LOp, out []bpf.Instruction, bigEndian bool) (BisimStats, error) {
	var st BisimStats
	type pair struct{ i, j int }
	seen := map[pair]bool{}
	stack := []pair{{0, 0}}
	for len(stack) > 0 {
		pr := stack[len(stack)-1]
		stack = stack[:len(stack)-1]
		if seen[pr] {
			continue
		}
		seen[pr] = true
		i, j := pr.i, pr.j
		hops := 0
		for {
			if j < 0 || j >= len(out) {
				return st, fmt.Errorf("label op %d is reached at assembled pc %d, outside the program (len %d)", i, j, len(out))
			}
			ja, ok := out[j].(bpf.Jump)
			if !ok {
				break
			}
			j = j + 1 + int(ja.Skip)
			hops++
			if hops > len(out) {
				return st, fmt.Errorf("unconditional jumps loop")
			}
		}
		if i >= len(ops) {
			return st, fmt.Errorf("label pc %d outside the label program", i)
		}
		o := ops[i]
		switch o.Kind {
		case LRet:
			want := o.Ret
			if want == RetErrno {
				want |= EPERM
			}
			rc, ok := out[j].(bpf.RetConstant)
			if !ok || rc.Val != want {
				return st, fmt.Errorf("label op %d is 'ret %#x' but the path arrives at assembled pc %d: %v", i, want, j, out[j])
			}
		case LLdHi, LLdLo:
			la, ok := out[j].(bpf.LoadAbsolute)
			if !ok || la.Off != loadOffset(o, bigEndian) || la.Size != 4 {
				return st, fmt.Errorf("label op %d is a load of offset %d but the path arrives at assembled pc %d: %v", i, loadOffset(o, bigEndian), j, out[j])
			}
			stack = append(stack, pair{i + 1, j + 1})
		case LJmp:
			ji, ok := out[j].(bpf.JumpIf)
			if !ok || int(ji.Cond) != o.Cond || ji.Val != o.Val {
				return st, fmt.Errorf("label op %d is 'if A %v %#x' but the path arrives at assembled pc %d: %v", i, bpf.JumpTest(o.Cond), o.Val, j, out[j])
			}
			if d := o.T - i - 1; d > st.MaxSkip {
				st.MaxSkip = d
			}
			if d := o.F - i - 1; d > st.MaxSkip {
				st.MaxSkip = d
			}
			stack = append(stack, pair{o.T, j + 1 + int(ji.SkipTrue)}, pair{o.F, j + 1 + int(ji.SkipFalse)})
		}
	}
	st.Pairs = len(seen)
	nja, nret, lret := 0, 0, 0
	for _, in := range out {
		switch in.(type) {
		case bpf.Jump:
			nja++
		case bpf.RetConstant:
			nret++
		}
	}
	for _, o := range ops {
		if o.Kind == LRet {
			lret++
		}
	}
	st.JaBridges, st.RetBridges = nja, nret-lret
	return st, nil
}

// RunLabel executes the label program itself.
func RunLabel(ops []LOp, w *[16]uint32, bigEndian bool) (uint32, error) {
	var A uint32
	pc := 0
	for steps := 0; steps <= len(ops); steps++ {
		if pc >= len(ops) {
			return 0, fmt.Errorf("label pc %d outside", pc)
		}
		o := ops[pc]
		switch o.Kind {
		case LLdHi, LLdLo:
			A = w[loadOffset(o, bigEndian)/4]
			pc++
		case LRet:
			if o.Ret == RetErrno {
				return o.Ret | EPERM, nil
			}
			return o.Ret, nil
		case LJmp:
			var c bool
			switch bpf.JumpTest(o.Cond) {
			case bpf.JumpEqual:
				c = A == o.Val
			case bpf.JumpNotEqual:
				c = A != o.Val
			case bpf.JumpGreaterThan:
				c = A > o.Val
			case bpf.JumpLessThan:
				c = A < o.Val
			case bpf.JumpGreaterOrEqual:
				c = A >= o.Val
			case bpf.JumpLessOrEqual:
				c = A <= o.Val
			case bpf.JumpBitsSet:
				c = A&o.Val != 0
			case bpf.JumpBitsNotSet:
				c = A&o.Val == 0
			}
			if c {
				pc = o.T
			} else {
				pc = o.F
			}
		}
	}
	return 0, fmt.Errorf("label program loops")
}

// GenLabelProgram generates a random forward label program of n ops.
func GenLabelProgram(r *rand.Rand, n int, farBias float64, loadHeavy bool) []LOp {
	ops := make([]LOp, n)
	smallVals := []uint32{0, 1, 2, 3, 0x80000000, 0xffffffff}
	for i := 0; i < n; i++ {
		last := i == n-1
		k := r.Intn(10)
		jmpFrom := 4
		if loadHeavy {
			jmpFrom = 8
		}
		switch {
		case last || k < 1:
			ops[i] = LOp{Kind: LRet, Ret: []uint32{RetAllow, RetErrno, RetKillProcess, RetKillThread, RetTrap, RetLog, RetTrace, 0x7fff0000 | uint32(r.Intn(4))}[r.Intn(8)]}
		case k < jmpFrom:
			ops[i] = LOp{Kind: []LKind{LLdHi, LLdLo}[r.Intn(2)], Arg: uint32(r.Intn(6))}
		default:
			pick := func() int {
				if i+1 >= n-1 {
					return n - 1
				}
				if r.Float64() < farBias {
					return i + 1 + r.Intn(n-i-1)
				}
				d := 1 + r.Intn(8)
				if i+d >= n {
					return n - 1
				}
				return i + d
			}
			t, f := pick(), pick()
			if t == i+1 && f == i+1 {
				f = i + 2
				if f > n-1 {
					ops[i] = LOp{Kind: LLdHi, Arg: 0}
					continue
				}
			}
			ops[i] = LOp{Kind: LJmp, Cond: r.Intn(8), Val: smallVals[r.Intn(len(smallVals))], T: t, F: f, ViaTrue: f == i+1 && r.Intn(2) == 0}
		}
	}
	return ops
}

// ShapeLabelProgram builds one catalogue program: pre filler ops, then a jump
// whose true/false targets lie dT/dF ops ahead (distance 1 = next op), filler
// in between, the targets being of kind tk ("ret","ld","jmp"), then a tail.
// fill: "loads" (jump-sparse) or "jumps" (dense, near targets) or "mixed".
func ShapeLabelProgram(pre, dT, dF int, tk, fill string, sharers int) []LOp {
	far := dT
	if dF > far {
		far = dF
	}
	n := pre + far + 4
	ops := make([]LOp, n)
	filler := func(i int) LOp {
		switch fill {
		case "jumps":
			return LOp{Kind: LJmp, Cond: int(bpf.JumpEqual), Val: uint32(i), T: i + 2, F: i + 1, ViaTrue: i%2 == 0}
		case "mixed":
			if i%3 == 0 {
				return LOp{Kind: LJmp, Cond: int(bpf.JumpGreaterThan), Val: uint32(i), T: i + 1, F: i + 2}
			}
		}
		return LOp{Kind: []LKind{LLdHi, LLdLo}[i%2], Arg: uint32(i % 6)}
	}
	for i := range ops {
		ops[i] = filler(i)
	}
	j := pre
	ops[j] = LOp{Kind: LJmp, Cond: int(bpf.JumpEqual), Val: 0xabcd, T: j + dT, F: j + dF}
	// additional jumps sharing the far label
	for s := 1; s <= sharers && j+s < j+far-2; s++ {
		ops[j+s] = LOp{Kind: LJmp, Cond: int(bpf.JumpBitsSet), Val: uint32(s), T: j + far, F: j + s + 1, ViaTrue: true}
	}
	mk := func(i int) LOp {
		switch tk {
		case "ret":
			return LOp{Kind: LRet, Ret: RetTrap}
		case "jmp":
			return LOp{Kind: LJmp, Cond: int(bpf.JumpLessThan), Val: 77, T: n - 1, F: i + 1}
		}
		return LOp{Kind: LLdLo, Arg: 3}
	}
	for _, t := range []int{j + dT, j + dF} {
		if t != j+1 || tk != "ret" { // keep the fallthrough a non-return unless asked
			ops[t] = mk(t)
		}
	}
	// repair fillers whose near targets would pass the end; end with returns
	ops[n-1] = LOp{Kind: LRet, Ret: RetAllow}
	ops[n-2] = LOp{Kind: LRet, Ret: RetErrno}
	for i := range ops {
		if ops[i].Kind == LJmp {
			if ops[i].T > n-1 {
				ops[i].T = n - 1
			}
			if ops[i].F > n-1 {
				ops[i].F = n - 1
			}
			if ops[i].T == i+1 && ops[i].F == i+1 {
				ops[i] = LOp{Kind: LLdHi, Arg: 1}
			}
			if ops[i].ViaTrue && ops[i].F != i+1 {
				ops[i].ViaTrue = false
			}
		}
	}
	return ops
}

// InLabelDomain checks the C06 preconditions on an op list.
func InLabelDomain(ops []LOp) bool {
	if len(ops) == 0 || ops[len(ops)-1].Kind != LRet {
		return false
	}
	for i, o := range ops {
		if o.Kind == LJmp {
			if o.T <= i || o.F <= i || o.T >= len(ops) || o.F >= len(ops) || (o.T == i+1 && o.F == i+1) {
				return false
			}
		}
	}
	return true
}

// TwoJumpProgram builds a program with two interacting two-way jumps: A at
// op 0 with targets +dTA/+dFA and B at op g with targets +dTB/+dFB (distance
// 1 = next op), fillers in between and returns at the end. ok is false when
// a jump would have both targets on its next op.
func TwoJumpProgram(g, dTA, dFA, dTB, dFB int, fill, tk string) (ops []LOp, ok bool) {
	if (dTA == 1 && dFA == 1) || (dTB == 1 && dFB == 1) || g < 1 {
		return nil, false
	}
	far := dTA
	for _, v := range []int{dFA, g + dTB, g + dFB} {
		if v > far {
			far = v
		}
	}
	n := far + 4
	ops = make([]LOp, n)
	for i := range ops {
		switch {
		case fill == "jumps" && i%2 == 0:
			ops[i] = LOp{Kind: LJmp, Cond: int(bpf.JumpEqual), Val: uint32(i), T: i + 2, F: i + 1, ViaTrue: i%4 == 0}
		case fill == "mixed" && i%5 == 0:
			ops[i] = LOp{Kind: LJmp, Cond: int(bpf.JumpGreaterThan), Val: uint32(i), T: i + 1, F: i + 3}
		default:
			ops[i] = LOp{Kind: []LKind{LLdHi, LLdLo}[i%2], Arg: uint32(i % 6)}
		}
	}
	mk := func(i int) LOp {
		if tk == "ret" {
			return LOp{Kind: LRet, Ret: []uint32{RetTrap, RetErrno, RetLog, RetKillProcess}[i%4]}
		}
		return LOp{Kind: LLdLo, Arg: uint32(i % 6)}
	}
	for _, t := range []int{dTA, dFA, g + dTB, g + dFB} {
		if t != 1 && t != g+1 { // keep the ops right behind the jumps ordinary
			ops[t] = mk(t)
		}
	}
	ops[0] = LOp{Kind: LJmp, Cond: int(bpf.JumpEqual), Val: 0xa, T: dTA, F: dFA}
	ops[g] = LOp{Kind: LJmp, Cond: int(bpf.JumpBitsSet), Val: 0xb, T: g + dTB, F: g + dFB}
	ops[n-1] = LOp{Kind: LRet, Ret: RetAllow}
	ops[n-2] = LOp{Kind: LRet, Ret: RetKillThread}
	for i := range ops {
		if ops[i].Kind == LJmp {
			if ops[i].T > n-1 {
				ops[i].T = n - 1
			}
			if ops[i].F > n-1 {
				ops[i].F = n - 1
			}
			if ops[i].T == i+1 && ops[i].F == i+1 {
				ops[i] = LOp{Kind: LLdHi, Arg: 2}
			}
			if ops[i].ViaTrue && ops[i].F != i+1 {
				ops[i].ViaTrue = false
			}
		}
	}
	return ops, InLabelDomain(ops)
}
