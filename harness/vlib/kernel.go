package vlib

import (
	"bufio"
	"bytes"
	"encoding/hex"
	"encoding/json"
	"fmt"
	"os"
	"os/exec"
	"path/filepath"
	"regexp"
	"strconv"
	"strings"
	"sync"
	"syscall"
	"time"

	"golang.org/x/net/bpf"
)

// Probe is one raw system call issued by the child.
type Probe struct {
	// Kind: "syscall" (native ABI) or "int80" (i386 ABI from an amd64 process).
	Kind string    `json:"kind"`
	NR   uint64    `json:"nr"`
	Args [6]uint64 `json:"args"`
}

// ChildCase is the input of one vchild run.
type ChildCase struct {
	Policy    PolicySpec `json:"policy"`
	ForceArch string     `json:"force_arch,omitempty"`
	Flags     uint32     `json:"flags"`
	// FlagNames, when set, makes the child build Filter.Flag from the package's
	// named constants ("tsync", "log") instead of the numeric word.
	FlagNames       []string `json:"flag_names,omitempty"`
	NNP             bool     `json:"nnp"`
	Probes          []Probe  `json:"probes"`
	KillThreadProbe bool     `json:"kill_thread_probe,omitempty"`
	// PreloadOnOtherThread: before the judged load, another pinned thread loads the very same filter
	// (only meaningful without thread-sync).
	PreloadOnOtherThread bool `json:"preload_on_other_thread,omitempty"`
	// PreloadPolicy: the other thread loads this (different) policy instead, without thread-sync: its filter is then not
	// an ancestor of the judged caller's, and a thread-sync load must be refused.
	PreloadPolicy *PolicySpec `json:"preload_policy,omitempty"`
	// Linux32: the child switches to the PER_LINUX32 execution domain first (as under `linux32`/`setarch i686`): uname(2)
	// then reports a 32-bit machine while the process still makes the system calls of its own ABI.
	Linux32 bool `json:"linux32,omitempty"`
	// OuterPolicy: before the judged load, the judged thread itself loads this policy (staged lock-down: the judged load
	// then runs under a filter).
	OuterPolicy  *PolicySpec `json:"outer_policy,omitempty"`
	Unprivileged bool        `json:"unprivileged,omitempty"`
	// GCSpray: inside the install hook (between building the seccomp argument and the system call) the child
	// forces garbage collections and then allocates many slices of the program's size filled with another
	// program: 1 = "ret ALLOW" everywhere, 2 = zero words (refused by the kernel), 3 = collections only.
	// Correct code is unaffected (the program stays reachable until the kernel has copied it).
	GCSpray int `json:"gc_spray,omitempty"`
	// PauseBetweenProbes: the child (whose goroutine locked its OS thread before the load, as the judged caller does) sleeps
	// and yields between the probes and reports the thread every probe ran on: it must stay the thread that loaded.
	PauseBetweenProbes bool `json:"pause_between_probes,omitempty"`
	// SiblingLoads: while the judged load runs, this many other pinned threads load another (harmless) policy without
	// thread-sync, on one P and with a pause inside every load between prctl and the seccomp call.
	SiblingLoads int `json:"sibling_loads,omitempty"`
	// PidNamespace: the child is process 1 of a new PID namespace with its own /proc (unshare -p -f --mount-proc): its main
	// thread has thread id 1. Not combined with strace (the tracer would be process 1).
	PidNamespace bool `json:"pid_namespace,omitempty"`
	// NoProc: the child runs in a private mount namespace from which /proc has been detached (state snapshots are then
	// empty; only what the probes observe is judged).
	NoProc bool `json:"no_proc,omitempty"`

	// Raw: rawload mode hands this program (code, jt, jf, k) to seccomp(2) directly.
	Raw [][4]uint32 `json:"raw,omitempty"`

	// Env: extra environment of the child (runtime knobs such as GOGC=1, GODEBUG=asyncpreemptoff=1).
	Env []string `json:"env,omitempty"`
	// StraceInject: extra strace arguments (fault injection) used by the parent when the case runs under strace.
	StraceInject []string     `json:"strace_inject,omitempty"`
	Conc         *ConcCase    `json:"conc,omitempty"`
	History      *HistoryCase `json:"history,omitempty"`
	TSync        *TSyncCase   `json:"tsync,omitempty"`
	NNPCase      *NNPCase     `json:"nnp_case,omitempty"`
}

// HistoryCase: a history of load calls over pinned threads (C09).
type HistoryCase struct {
	Threads  int                   `json:"threads"`
	Calls    []LoadCall            `json:"calls"`
	Policies map[string]PolicySpec `json:"policies"` // by kind
	Probes   []uint64              `json:"probes"`   // probe syscall numbers issued on every thread after every call
	// MainThreadIsWorker0: thread 0 of the history is the process's main thread (the child keeps its main goroutine on it)
	MainThreadIsWorker0 bool `json:"main_thread_is_worker0,omitempty"`
}

// ConcCase: load calls issued concurrently by several pinned threads (C09, checked for linearizability).
type ConcCase struct {
	Plans    [][]ConcLoad          `json:"plans"` // per thread
	Policies map[string]PolicySpec `json:"policies"`
	Probes   []uint64              `json:"probes"`
	Jitter   []int                 `json:"jitter"` // spin iterations before each thread's first call
	// GoMaxProcs > 0: the child runs on that many Ps (the threads then share per-P state of the runtime, such as pools).
	GoMaxProcs int `json:"gomaxprocs,omitempty"`
	// CompileBeside: while the loads run, another goroutine keeps compiling the policies named "beside<k>" (small ones,
	// one of exactly 4096 instructions, oversize ones) and compares every result with what the same policy gave before
	// the first load began.
	CompileBeside bool `json:"compile_beside,omitempty"`
	// HookSleepMicros > 0: every load sleeps that long at the hook between prctl and the seccomp call, so that other
	// loads run in between (an injected delay between two steps of one call, not inside a critical section).
	HookSleepMicros int `json:"hook_sleep_micros,omitempty"`
}

// ConcLoad is one load: policy "valid<ID>" denies probe number ID.
type ConcLoad struct {
	ID    int    `json:"id"`
	Flags uint32 `json:"flags"`
	NNP   bool   `json:"nnp"`
}

// LoadCall is one step of a history.
type LoadCall struct {
	Thread int    `json:"thread"` // index of the pinned thread that makes the call
	Op     string `json:"op"`     // "load", "supported", "setnnp"
	Flags  uint32 `json:"flags"`
	NNP    bool   `json:"nnp"`
	Policy string `json:"policy"` // key of HistoryCase.Policies
}

// TSyncCase: thread-sync under schedules (C10).
type TSyncCase struct {
	Threads    []string `json:"threads"` // per thread state: spin, probe, sleep, pipe, futex
	Spawners   int      `json:"spawners"`
	LoaderSpin int      `json:"loader_spin"`
	GoMaxProcs int      `json:"gomaxprocs"`
	ProbesEach int      `json:"probes_each"`
	SpawnAfter int      `json:"spawn_after"` // threads created after the load
	ProbeNR    uint64   `json:"probe_nr"`
	// SideLoadAtHook: while the judged load is between its prctl and its seccomp call, another thread loads a different
	// policy with other flags (no thread-sync) and exits before the judged load goes on.
	SideLoadAtHook bool `json:"side_load_at_hook,omitempty"`
}

// NNPCase: no_new_privs ordering and pinning (C11).
type NNPCase struct {
	Mode       string `json:"mode"` // "plain", "gosched", "migrate", "busy"
	GoMaxProcs int    `json:"gomaxprocs,omitempty"`
	// CallerLocked: the calling goroutine has locked its OS thread itself before the call
	CallerLocked bool `json:"caller_locked,omitempty"`
	// PresetOnMain: the main thread sets no_new_privs first (exported SetNoNewPrivs); the load then runs on another,
	// already existing OS thread that does not carry the bit.
	PresetOnMain bool `json:"preset_on_main,omitempty"`
	// Prior (with PresetOnMain): what the main thread does instead of a bare SetNoNewPrivs before the judged load runs on the
	// older thread: "declined-einval" = a load with NoNewPrivs and thread-sync plus an unknown flag bit (the kernel answers
	// EINVAL after the main thread got the bit), "declined-divergent" = a load with NoNewPrivs and thread-sync that the kernel
	// refuses because a third thread carries a different filter.
	Prior string `json:"prior,omitempty"`
}

var (
	buildMu    sync.Mutex
	buildCache = map[string]string{}
)

// BinDir is the scratch directory for build output (set by vcheck).
func BinDir() string {
	if d := os.Getenv("VERIF_BIN"); d != "" {
		return d
	}
	d, _ := os.MkdirTemp("", "vcheck.")
	os.Setenv("VERIF_BIN", d)
	return d
}

// BuildHarnessCmd builds ./cmd/<name> of the harness module against /repo
// with the verif tag. variant: "", "386", "race", "checkptr".
func BuildHarnessCmd(name, variant string) (string, error) {
	buildMu.Lock()
	defer buildMu.Unlock()
	key := name + "/" + variant
	if p, ok := buildCache[key]; ok {
		return p, nil
	}
	outp := filepath.Join(BinDir(), name+"-"+variant)
	args := []string{"build", "-tags", "verif"}
	env := os.Environ()
	switch variant {
	case "386":
		env = append(env, "GOARCH=386")
	case "race":
		args = append(args, "-race")
	case "checkptr":
		args = append(args, "-gcflags=all=-d=checkptr")
	}
	args = append(args, "-o", outp, "./cmd/"+name)
	cmd := exec.Command("go", args...)
	cmd.Dir = filepath.Join(VerifDir(), "harness")
	cmd.Env = env
	if b, err := cmd.CombinedOutput(); err != nil {
		return "", fmt.Errorf("go %v: %v: %s", args, err, b)
	}
	buildCache[key] = outp
	return outp, nil
}

// BuildRepoCmd builds a command of /repo itself (no tag: the commands are
// monitored as black boxes).
func BuildRepoCmd(pkg, name string) (string, error) {
	buildMu.Lock()
	defer buildMu.Unlock()
	if p, ok := buildCache["repo/"+pkg]; ok {
		return p, nil
	}
	outp := filepath.Join(BinDir(), name)
	cmd := exec.Command("go", "build", "-o", outp, pkg)
	cmd.Dir = RepoDir()
	if b, err := cmd.CombinedOutput(); err != nil {
		return "", fmt.Errorf("go build %s: %v: %s", pkg, err, b)
	}
	buildCache["repo/"+pkg] = outp
	return outp, nil
}

func RepoDir() string {
	if d := os.Getenv("VERIF_REPO"); d != "" {
		return d
	}
	return "/repo"
}

// StraceCall is one seccomp/prctl call seen at the syscall boundary.
type StraceCall struct {
	Tid   int
	Name  string // "seccomp" or "prctl"
	Args  []uint64
	Prog  []bpf.RawInstruction // seccomp(SET_MODE_FILTER): the program the kernel received
	Len   int
	Ret   int64
	Errno string
	Raw   string
}

// ChildResult is what the parent observed.
type ChildResult struct {
	Lines    []map[string]any
	Stdout   string
	Stderr   string
	Exited   bool
	ExitCode int
	Signaled bool
	Signal   syscall.Signal
	TimedOut bool
	Strace   []StraceCall
	Pid      int
}

// Line returns the first output line with the given ev.
func (r *ChildResult) Line(ev string) map[string]any {
	for _, l := range r.Lines {
		if l["ev"] == ev {
			return l
		}
	}
	return nil
}

var caseSeq int64
var caseSeqMu sync.Mutex

// RunChild runs bin <mode> <case file> under a hard watchdog, optionally under
// strace, and collects everything the parent can observe.
func RunChild(bin, mode string, c *ChildCase, strace bool, timeout time.Duration) (*ChildResult, error) {
	caseSeqMu.Lock()
	caseSeq++
	id := caseSeq
	caseSeqMu.Unlock()
	dir := BinDir()
	casePath := filepath.Join(dir, fmt.Sprintf("case-%d-%d.json", os.Getpid(), id))
	b, _ := json.Marshal(c)
	if err := os.WriteFile(casePath, b, 0o644); err != nil {
		return nil, err
	}
	defer os.Remove(casePath)
	stracePath := casePath + ".strace"
	defer os.Remove(stracePath)

	var cmd *exec.Cmd
	if strace {
		args := []string{"-f", "-X", "raw", "-e", "trace=seccomp,prctl,uname", "-e", "abbrev=none", "-e", "signal=none", "-s", "1000000", "-o", stracePath}
		if c.Unprivileged {
			args = append(args, "-u", "nobody") // strace stays root, the tracee runs as uid/gid 65534 without capabilities
		}
		args = append(args, c.StraceInject...)
		cmd = exec.Command("strace", append(args, bin, mode, casePath)...)
	} else {
		cmd = exec.Command(bin, mode, casePath)
	}
	if c.PidNamespace && !strace {
		cmd = exec.Command("/usr/bin/unshare", append([]string{"-p", "-f", "--mount-proc", "--kill-child"}, cmd.Args...)...)
	} else if c.NoProc {
		cmd = exec.Command("/usr/bin/unshare", append([]string{"-m", "--propagation", "private", "/bin/sh", "-c", `/bin/umount -l /proc || exit 71; exec "$@"`, "sh"}, cmd.Args...)...)
	}
	var so, se bytes.Buffer
	cmd.Stdout, cmd.Stderr = &so, &se
	cmd.Env = append(os.Environ(), "GOTRACEBACK=single")
	if os.Getenv("VERIF_WATCHDOG_DIR") != "" {
		cmd.Env = append(os.Environ(), "GOTRACEBACK=system")
	}
	cmd.Env = append(cmd.Env, c.Env...)
	if c.History != nil && c.History.MainThreadIsWorker0 {
		cmd.Env = append(cmd.Env, "VCHILD_LOCK_MAIN=1")
	}
	if c.NNPCase != nil && c.NNPCase.PresetOnMain {
		cmd.Env = append(cmd.Env, "VCHILD_LOCK_MAIN=1") // keeps the main goroutine on the main thread
	}
	cmd.SysProcAttr = &syscall.SysProcAttr{Setpgid: true} // own process group: the watchdog kills the whole group
	cmd.WaitDelay = 2 * time.Second
	if c.Unprivileged && !strace {
		cmd.SysProcAttr.Credential = &syscall.Credential{Uid: 65534, Gid: 65534, NoSetGroups: false}
		os.Chmod(casePath, 0o644)
	}
	if err := cmd.Start(); err != nil {
		return nil, err
	}
	if s := os.Getenv("VERIF_WATCHDOG_SECS"); s != "" && os.Getenv("VERIF_WATCHDOG_DIR") != "" { // debugging aid
		if n, err := strconv.Atoi(s); err == nil {
			timeout = time.Duration(n) * time.Second
		}
	}
	res := &ChildResult{Pid: cmd.Process.Pid}
	done := make(chan error, 1)
	go func() { done <- cmd.Wait() }()
	select {
	case <-done:
	case <-time.After(timeout):
		res.TimedOut = true
		if wd := os.Getenv("VERIF_WATCHDOG_DIR"); wd != "" {
			// debugging aid: keep the case and ask the runtime for a goroutine dump before the kill
			os.MkdirAll(wd, 0o755)
			os.WriteFile(filepath.Join(wd, filepath.Base(casePath)), b, 0o644)
			syscall.Kill(-cmd.Process.Pid, syscall.SIGQUIT)
			select {
			case err := <-done:
				done <- err
			case <-time.After(3 * time.Second):
			}
			os.WriteFile(filepath.Join(wd, filepath.Base(casePath)+".out"), []byte(mode+"\n"+so.String()+"\n----\n"+se.String()), 0o644)
		}
		syscall.Kill(-cmd.Process.Pid, syscall.SIGKILL)
		cmd.Process.Kill()
		<-done
	}
	if ws, ok := cmd.ProcessState.Sys().(syscall.WaitStatus); ok {
		res.Exited, res.ExitCode = ws.Exited(), ws.ExitStatus()
		res.Signaled, res.Signal = ws.Signaled(), ws.Signal()
	}
	res.Stdout, res.Stderr = so.String(), se.String()
	sc := bufio.NewScanner(strings.NewReader(res.Stdout))
	sc.Buffer(make([]byte, 1<<20), 1<<26)
	for sc.Scan() {
		var m map[string]any
		d := json.NewDecoder(strings.NewReader(sc.Text()))
		d.UseNumber()
		if d.Decode(&m) == nil {
			res.Lines = append(res.Lines, m)
		}
	}
	if strace {
		sb, _ := os.ReadFile(stracePath)
		res.Strace = ParseStrace(string(sb))
		// under strace the wait status is strace's: it re-raises the tracee's
		// fatal signal or exits with its status.
	}
	return res, nil
}

var (
	reStraceLine = regexp.MustCompile(`^(\d+)\s+(seccomp|prctl)\((.*)\)\s+=\s+(-?\d+|\?)(?:\s+(\w+))?`)
	reBPF        = regexp.MustCompile(`BPF_(STMT|JUMP)\(([^)]*)\)`)
)

func orExpr(s string) uint64 {
	var v uint64
	for _, p := range strings.Split(s, "|") {
		p = strings.TrimSpace(p)
		x, err := strconv.ParseUint(p, 0, 64)
		if err != nil {
			if y, err2 := strconv.ParseInt(p, 0, 64); err2 == nil {
				x = uint64(y)
			}
		}
		v |= x
	}
	return v
}

// ParseStrace extracts the seccomp and prctl calls from `strace -X raw
// -e abbrev=none` output.
func ParseStrace(text string) []StraceCall {
	var out []StraceCall
	// join "unfinished ... resumed" pairs per tid
	pending := map[string]string{}
	for _, line := range strings.Split(text, "\n") {
		if i := strings.Index(line, " <unfinished ...>"); i >= 0 {
			f := strings.Fields(line)
			if len(f) > 0 {
				pending[f[0]] = line[:i]
			}
			continue
		}
		if i := strings.Index(line, "<... "); i >= 0 {
			f := strings.Fields(line)
			if len(f) > 0 {
				if j := strings.Index(line, " resumed>"); j >= 0 {
					line = pending[f[0]] + line[j+len(" resumed>"):]
					delete(pending, f[0])
				}
			}
		}
		m := reStraceLine.FindStringSubmatch(line)
		if m == nil {
			continue
		}
		tid, _ := strconv.Atoi(m[1])
		c := StraceCall{Tid: tid, Name: m[2], Raw: line, Errno: m[5]}
		if len(c.Raw) > 300 {
			c.Raw = c.Raw[:300] + "..."
		}
		if m[4] != "?" {
			c.Ret, _ = strconv.ParseInt(m[4], 10, 64)
		} else {
			c.Errno = "?"
		}
		argstr := m[3]
		head := argstr
		if i := strings.Index(argstr, "{"); i >= 0 {
			head = argstr[:i]
			body := argstr[i:]
			if lm := regexp.MustCompile(`len=(\d+)`).FindStringSubmatch(body); lm != nil {
				c.Len, _ = strconv.Atoi(lm[1])
			}
			for _, bm := range reBPF.FindAllStringSubmatch(body, -1) {
				parts := strings.Split(bm[2], ",")
				var in bpf.RawInstruction
				in.Op = uint16(orExpr(parts[0]))
				if len(parts) > 1 {
					in.K = uint32(orExpr(parts[1]))
				}
				if bm[1] == "JUMP" && len(parts) > 3 {
					in.Jt = uint8(orExpr(parts[2]))
					in.Jf = uint8(orExpr(parts[3]))
				}
				c.Prog = append(c.Prog, in)
			}
		}
		for _, a := range strings.Split(head, ",") {
			a = strings.TrimSpace(a)
			if a == "" {
				continue
			}
			if a == "NULL" {
				c.Args = append(c.Args, 0)
				continue
			}
			c.Args = append(c.Args, orExpr(a))
		}
		out = append(out, c)
	}
	return out
}

// Outcome classes of a probe.
const (
	OutRuns   = "runs"   // syscall executes (ALLOW, LOG)
	OutErrno  = "errno"  // fails with Errno
	OutSigsys = "sigsys" // TRAP, KILL_THREAD, KILL_PROCESS
)

type Expect struct {
	Class  string
	Errno  uint32
	Action uint32 // masked action of the return word
	Word   uint32
}

// ExpectWord maps a filter return word to what the kernel does with the
// syscall (no tracer, no notification listener attached).
func ExpectWord(w uint32) Expect {
	act := w & 0xffff0000
	if w&0x80000000 != 0 && act != RetKillProcess {
		act = RetKillProcess // unknown actions >= KILL_PROCESS are treated as kill process
	}
	switch act {
	case RetAllow, RetLog:
		return Expect{Class: OutRuns, Action: act, Word: w}
	case RetErrno:
		e := w & 0xffff
		if e > 4095 {
			e = 4095
		}
		return Expect{Class: OutErrno, Errno: e, Action: act, Word: w}
	case RetTrace, RetUserNotif:
		return Expect{Class: OutErrno, Errno: ENOSYS, Action: act, Word: w}
	case RetTrap, RetKillThread, RetKillProcess:
		return Expect{Class: OutSigsys, Action: act, Word: w}
	}
	// unknown action values: the kernel kills
	return Expect{Class: OutSigsys, Action: act, Word: w}
}

// ProbeEvent is the seccomp_data the kernel builds for a probe issued by a
// child of the given GOARCH.
func ProbeEvent(goarch string, p Probe, o *Oracles) Event {
	e := Event{}
	switch {
	case p.Kind == "int80":
		e.Arch = o.AuditArch["I386"]
		e.NR = uint32(p.NR)
		for i := 0; i < 3; i++ {
			e.Args[i] = p.Args[i] & 0xffffffff
		}
	case goarch == "386":
		e.Arch = o.AuditArch["I386"]
		e.NR = uint32(p.NR)
		for i := range e.Args {
			e.Args[i] = p.Args[i] & 0xffffffff
		}
	default:
		e.Arch = o.AuditArch["X86_64"]
		e.NR = uint32(p.NR)
		e.Args = p.Args
	}
	return e
}

// FakeKernelReleases are release strings a process can be made to see through uname(2) (strace rewrites the result):
// the running kernel stays what it is, so the library's behaviour must not depend on them.
var FakeKernelReleases = []string{"2.6.32-754.el6.x86_64", "3.10.0-1160.el7.x86_64", "3.16.0", "3.17.0", "4.4.0-210-generic", "4.13.0", "4.14.0", "4.19.0-26-amd64",
	"5.4.0-150-generic", "5.10.0-28-amd64", "5.15.0-91-generic", "6.1.0-18-amd64", "6.6.13", "6.12.0", "6.17.0", "7.0.0-rc1", "10.2.1", "", "garbage"}

// UnamePoke returns the strace arguments that make every uname(2) call of the tracees report the given release.
func UnamePoke(release string) []string {
	b := make([]byte, 0, 200)
	pad := func(s string) []byte {
		x := make([]byte, 65)
		copy(x, s)
		return x
	}
	b = append(b, pad("Linux")...)
	b = append(b, pad("host")...)
	b = append(b, pad(release)...)
	return []string{"-e", "inject=uname:poke_exit=@arg1=" + hex.EncodeToString(b)}
}

// RuntimeKnobs are environments that change the Go runtime's behaviour around the library's unsafe and scheduling
// sensitive code without changing what the library must do.
var RuntimeKnobs = [][]string{nil, {"GOGC=1"}, {"GODEBUG=asyncpreemptoff=1"}, {"GOGC=1", "GODEBUG=gcstoptheworld=1"}, {"GOMAXPROCS=1"}, {"GOMAXPROCS=2", "GOGC=5"}, {"GODEBUG=madvdontneed=1,sbrk=0", "GOGC=2"}}

// RuntimeKnobsGC: only garbage-collector knobs (for children that spin in user space, where switching asynchronous
// preemption off or forcing one P would merely starve the loader).
var RuntimeKnobsGC = [][]string{nil, {"GOGC=1"}, {"GOGC=1", "GODEBUG=gcstoptheworld=1"}, {"GOGC=2", "GODEBUG=madvdontneed=1"}}
