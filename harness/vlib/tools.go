package vlib

import (
	"bytes"
	"fmt"
	"os"
	"os/exec"
	"path/filepath"
	"strings"
	"sync/atomic"
	"syscall"
	"time"
)

// E8: process-history runner for cmd/seccomp-profiler. Every run happens in a
// private mount namespace in which a scratch directory is bind-mounted over
// the home directory, so each history has its own ~/.seccomp-profiler, and
// with a scripted fake `go` first in PATH standing in for `go tool objdump`.

const fakeGoScript = `#!/bin/sh
# fake "go tool objdump <binary>" controlled by FAKE_* variables
[ "$1" = tool ] && [ "$2" = objdump ] || { echo "fake go: unexpected $*" >&2; exit 64; }
case "$FAKE_MODE" in
emit)        cat "$FAKE_LISTING"; exit 0 ;;
emit-lenient) # like the real tool: failures of its own writes (EFBIG, ENOSPC, SIGXFSZ) are ignored, exit status 0
             trap '' XFSZ; cat "$FAKE_LISTING" 2>/dev/null; exit 0 ;;
fail-before) exit 1 ;;
fail-after)  cat "$FAKE_LISTING"; exit 1 ;;
fail-partial) head -c "$FAKE_K" "$FAKE_LISTING"; exit 1 ;;
signal-partial) head -c "$FAKE_K" "$FAKE_LISTING"; kill -KILL $$ ;;
block)       head -c "$FAKE_K" "$FAKE_LISTING"; echo ready > "$FAKE_FIFO"; exec sleep 1000 ;;
pause)       # emit K bytes, report, wait for the release file, emit the rest, exit with FAKE_EXIT
             head -c "$FAKE_K" "$FAKE_LISTING"; echo ready > "$FAKE_FIFO"
             while [ ! -e "$FAKE_RELEASE" ]; do sleep 0.02; done
             tail -c +$(($FAKE_K + 1)) "$FAKE_LISTING"; exit "$FAKE_EXIT" ;;
*)           echo "fake go: no mode" >&2; exit 65 ;;
esac
`

// ToolHome is one private home + fake tool directory.
type ToolHome struct {
	Dir  string // scratch root
	Home string // bind-mounted over the real home
	Bin  string // holds the fake go
}

var toolSeq int64

func NewToolHome() (*ToolHome, error) {
	n := atomic.AddInt64(&toolSeq, 1)
	d := filepath.Join(BinDir(), fmt.Sprintf("home-%d-%d", os.Getpid(), n))
	th := &ToolHome{Dir: d, Home: filepath.Join(d, "home"), Bin: filepath.Join(d, "bin")}
	for _, p := range []string{th.Home, th.Bin} {
		if err := os.MkdirAll(p, 0o755); err != nil {
			return nil, err
		}
	}
	if err := os.WriteFile(filepath.Join(th.Bin, "go"), []byte(fakeGoScript), 0o755); err != nil {
		return nil, err
	}
	return th, nil
}

func (th *ToolHome) Remove() { os.RemoveAll(th.Dir) }

// CacheFiles lists the files under the private ~/.seccomp-profiler.
func (th *ToolHome) CacheFiles() map[string]int64 {
	out := map[string]int64{}
	ents, _ := os.ReadDir(filepath.Join(th.Home, ".seccomp-profiler"))
	for _, e := range ents {
		if fi, err := e.Info(); err == nil {
			out[e.Name()] = fi.Size()
		}
	}
	return out
}

// ToolRun describes one run of a command inside the private namespace.
type ToolRun struct {
	Argv     []string
	FakeMode string // "" = no fake go in PATH at all (tool absent)
	Listing  string
	K        int
	// Env: extra environment (locale, time zone, temporary directory, runtime knobs): must not matter.
	Env       []string
	KillAfter bool // mode block: wait for the fake tool's signal, let writes settle, SIGKILL the process group
	// WhileBlocked, if set, runs after the tool signalled and the cache settled, before the kill
	// (an overlapping second run).
	WhileBlocked func()
	Strace       []string // extra strace arguments (fault injection); empty = no strace
	Stdin        string
	Timeout      time.Duration
	Exit         int // mode pause: exit status of the fake tool after it emitted everything
}

type ToolResult struct {
	Stdout, Stderr string
	ExitCode       int
	Signaled       bool
	Killed         bool // by the harness (KillAfter)
	TimedOut       bool
	CacheAtKill    map[string]int64
}

func homeDir() string {
	if h := os.Getenv("VERIF_REAL_HOME"); h != "" {
		return h
	}
	return "/root"
}

// Run executes the command.
func (th *ToolHome) Run(tr ToolRun) (*ToolResult, error) {
	path := "/usr/bin:/bin"
	if tr.FakeMode != "" {
		path = th.Bin + ":" + path
	} else {
		path = filepath.Join(th.Dir, "emptybin") // no `go` anywhere
		os.MkdirAll(path, 0o755)
	}
	fifo := filepath.Join(th.Dir, "fifo")
	if tr.FakeMode == "block" {
		os.Remove(fifo)
		if err := syscall.Mkfifo(fifo, 0o644); err != nil {
			return nil, err
		}
	}
	cmd := th.command(tr, path, fifo, "")
	var so, se bytes.Buffer
	cmd.Stdout, cmd.Stderr = &so, &se
	if tr.Stdin != "" {
		cmd.Stdin = strings.NewReader(tr.Stdin)
	}
	cmd.SysProcAttr = &syscall.SysProcAttr{Setpgid: true}
	cmd.WaitDelay = 2 * time.Second
	if err := cmd.Start(); err != nil {
		return nil, err
	}
	res := &ToolResult{}
	done := make(chan error, 1)
	go func() { done <- cmd.Wait() }()
	timeout := tr.Timeout
	if timeout == 0 {
		timeout = 60 * time.Second
	}
	killGroup := func() { syscall.Kill(-cmd.Process.Pid, syscall.SIGKILL); cmd.Process.Kill() }
	if tr.KillAfter {
		ready := make(chan struct{})
		go func() {
			if f, err := os.OpenFile(fifo, os.O_RDONLY, 0); err == nil {
				buf := make([]byte, 16)
				f.Read(buf)
				f.Close()
				close(ready)
			}
		}()
		select {
		case <-ready:
			// let the profiler move what the tool wrote into the cache: wait until the cache files stop growing
			last := fmt.Sprint(th.CacheFiles())
			stable := 0
			for i := 0; i < 200 && stable < 4; i++ {
				time.Sleep(5 * time.Millisecond)
				now := fmt.Sprint(th.CacheFiles())
				if now == last {
					stable++
				} else {
					stable, last = 0, now
				}
			}
			res.CacheAtKill = th.CacheFiles()
			if tr.WhileBlocked != nil {
				tr.WhileBlocked()
			}
			res.Killed = true
			killGroup()
			<-done
		case <-done:
			// the command ended without the tool ever blocking
			go func() { // unblock the fifo reader
				if f, err := os.OpenFile(fifo, os.O_WRONLY|syscall.O_NONBLOCK, 0); err == nil {
					f.Close()
				}
			}()
		case <-time.After(timeout):
			res.TimedOut = true
			killGroup()
			<-done
		}
	} else {
		select {
		case <-done:
		case <-time.After(timeout):
			res.TimedOut = true
			killGroup()
			<-done
		}
	}
	if ws, ok := cmd.ProcessState.Sys().(syscall.WaitStatus); ok {
		res.ExitCode, res.Signaled = ws.ExitStatus(), ws.Signaled()
	}
	res.Stdout, res.Stderr = so.String(), se.String()
	return res, nil
}

// command builds the namespaced command of one run.
func (th *ToolHome) command(tr ToolRun, path, fifo, release string) *exec.Cmd {
	inner := tr.Argv
	if len(tr.Strace) > 0 {
		inner = append(append([]string{"/usr/bin/strace", "-o", "/dev/null"}, tr.Strace...), tr.Argv...)
	}
	script := `/bin/mount --bind "$VERIF_HOME" "$VERIF_REALHOME" || exit 70; PATH="$VERIF_PATH"; export PATH; exec "$@"`
	args := append([]string{"-m", "--propagation", "private", "/bin/sh", "-c", script, "sh"}, inner...)
	cmd := exec.Command("/usr/bin/unshare", args...)
	cmd.Env = append(os.Environ(), "VERIF_HOME="+th.Home, "VERIF_REALHOME="+homeDir(), "VERIF_PATH="+path, "HOME="+homeDir(),
		"FAKE_MODE="+tr.FakeMode, "FAKE_LISTING="+tr.Listing, fmt.Sprintf("FAKE_K=%d", tr.K), "FAKE_FIFO="+fifo)
	cmd.Env = append(cmd.Env, tr.Env...)
	cmd.Env = append(cmd.Env, "FAKE_RELEASE="+release, fmt.Sprintf("FAKE_EXIT=%d", tr.Exit))
	return cmd
}

// PausedRun is a run whose fake tool stops after K bytes until it is released (mode pause): several of them
// can be interleaved by the caller.
type PausedRun struct {
	th      *ToolHome
	cmd     *exec.Cmd
	so, se  bytes.Buffer
	done    chan error
	ready   chan struct{}
	release string
	fifo    string
	ended   bool
	Killed  bool
}

// StartPaused starts the command with FAKE_MODE=pause.
func (th *ToolHome) StartPaused(tr ToolRun) (*PausedRun, error) {
	n := atomic.AddInt64(&toolSeq, 1)
	pr := &PausedRun{th: th, done: make(chan error, 1), ready: make(chan struct{}),
		release: filepath.Join(th.Dir, fmt.Sprintf("release-%d", n)), fifo: filepath.Join(th.Dir, fmt.Sprintf("fifo-%d", n))}
	if err := syscall.Mkfifo(pr.fifo, 0o644); err != nil {
		return nil, err
	}
	tr.FakeMode = "pause"
	pr.cmd = th.command(tr, th.Bin+":/usr/bin:/bin", pr.fifo, pr.release)
	pr.cmd.Stdout, pr.cmd.Stderr = &pr.so, &pr.se
	pr.cmd.SysProcAttr = &syscall.SysProcAttr{Setpgid: true}
	pr.cmd.WaitDelay = 2 * time.Second
	if err := pr.cmd.Start(); err != nil {
		return nil, err
	}
	go func() { pr.done <- pr.cmd.Wait() }()
	go func() {
		if f, err := os.OpenFile(pr.fifo, os.O_RDONLY, 0); err == nil {
			buf := make([]byte, 16)
			if n, _ := f.Read(buf); n > 0 {
				close(pr.ready)
			}
			f.Close()
		}
	}()
	return pr, nil
}

// WaitReady waits until the fake tool has emitted its K bytes and the cache directory has settled.
// false: the command ended (or the watchdog fired) without the tool ever pausing.
func (pr *PausedRun) WaitReady(timeout time.Duration) bool {
	select {
	case <-pr.ready:
	case err := <-pr.done:
		pr.done <- err
		pr.ended = true
		go func() { // unblock the fifo reader
			if f, err := os.OpenFile(pr.fifo, os.O_WRONLY|syscall.O_NONBLOCK, 0); err == nil {
				f.Close()
			}
		}()
		return false
	case <-time.After(timeout):
		return false
	}
	last := fmt.Sprint(pr.th.CacheFiles())
	stable := 0
	for i := 0; i < 200 && stable < 4; i++ {
		time.Sleep(5 * time.Millisecond)
		now := fmt.Sprint(pr.th.CacheFiles())
		if now == last {
			stable++
		} else {
			stable, last = 0, now
		}
	}
	return true
}

// Release lets the fake tool emit the rest and exit.
func (pr *PausedRun) Release() { os.WriteFile(pr.release, nil, 0o644) }

// Kill SIGKILLs the whole process group of the run.
func (pr *PausedRun) Kill() {
	pr.Killed = true
	syscall.Kill(-pr.cmd.Process.Pid, syscall.SIGKILL)
	pr.cmd.Process.Kill()
}

// Wait collects the result.
func (pr *PausedRun) Wait(timeout time.Duration) *ToolResult {
	res := &ToolResult{Killed: pr.Killed}
	select {
	case <-pr.done:
	case <-time.After(timeout):
		res.TimedOut = true
		syscall.Kill(-pr.cmd.Process.Pid, syscall.SIGKILL)
		pr.cmd.Process.Kill()
		<-pr.done
	}
	if ws, ok := pr.cmd.ProcessState.Sys().(syscall.WaitStatus); ok {
		res.ExitCode, res.Signaled = ws.ExitStatus(), ws.Signaled()
	}
	res.Stdout, res.Stderr = pr.so.String(), pr.se.String()
	return res
}

// HostileEnvs are environments that must not change what the command-line tools do.
var HostileEnvs = [][]string{nil, {"LANG=tr_TR.UTF-8", "LC_ALL=tr_TR.UTF-8"}, {"LC_ALL=C", "LANG=C"}, {"TZ=Pacific/Kiritimati"}, {"TMPDIR=/nonexistent-tmp"},
	{"GOGC=1"}, {"GOMAXPROCS=1"}, {"GODEBUG=asyncpreemptoff=1"}, {"LANG=ja_JP.eucJP", "LC_CTYPE=ja_JP.eucJP"}, {"COLUMNS=1", "LINES=1", "TERM=dumb"}, {"USER=nobody", "LOGNAME=nobody"},
	{"TMPDIR=/dev/shm"}} // a temporary directory on another file system than the files the tools are asked to write
