package vlib

import (
	"math/rand"
	"sort"

	seccomp "github.com/elastic/go-seccomp-bpf"
)

var AllOps = []seccomp.Operation{"Equal", "NotEqual", "GreaterThan", "LessThan", "GreaterOrEqual", "LessOrEqual", "BitsSet", "BitsNotSet"}

// BoundaryValues are the 64-bit operand classes of C02.
var BoundaryValues = []uint64{
	0, 1, 2, 1<<31 - 1, 1 << 31, 1<<32 - 1, 1 << 32, 1<<32 + 1, 1<<63 - 1, 1 << 63, 1<<64 - 2, 1<<64 - 1,
	0x1234567812345678, 0xffffffff00000000, 0x00000000ffffffff, 0x0000000100000000, 0x8000000080000000,
	1 << 0, 1 << 31, 1 << 32, 1 << 63, 0xaaaaaaaaaaaaaaaa, 0x5555555555555555, 0xaaaaaaaa55555555,
	0x0102030405060708, 0x1020304050607080, 0x10000000, 0x7fffffffffffffff, 0x00000001ffffffff, 0xfffffffe00000001,
}

// RandValue draws an operand: boundary classes, small numbers, syscall
// numbers of the target (so that a stale accumulator matters), random.
func RandValue(r *rand.Rand, t *Target, pool []string) uint64 {
	switch r.Intn(8) {
	case 0, 1:
		return BoundaryValues[r.Intn(len(BoundaryValues))]
	case 2:
		return uint64(r.Intn(8))
	case 3, 4:
		if len(pool) > 0 {
			v := uint64(t.Num[pool[r.Intn(len(pool))]])
			switch r.Intn(4) {
			case 0:
				return v << 32
			case 1:
				return v<<32 | v
			}
			return v
		}
		return uint64(r.Intn(400))
	case 5:
		return uint64(r.Intn(4))<<32 | uint64(r.Intn(4))
	case 6:
		return uint64(r.Uint32())
	}
	return r.Uint64()
}

// MixedParams steers GenMixed.
type MixedParams struct {
	MaxGroups      int
	MaxNames       int // small name lists: 0..MaxNames
	BigNamesChance int // 1/n chance of a large unconditional list (0 = never)
	MaxCondEntries int
	MaxLists       int
	LongListChance int // 1/n chance that an entry gets 10..30 lists
	// VeryLongListChance: 1/n chance that a list gets 9..78 conditions
	VeryLongListChance int
	MaxConds           int
	PoolSize           int // size of the small name pool (repeats across groups come from here)
	Actions            []seccomp.Action
	Defaults           []seccomp.Action
	DistinctDefault    bool
}

func DefaultMixed() MixedParams {
	return MixedParams{MaxGroups: 6, MaxNames: 10, BigNamesChance: 6, MaxCondEntries: 6, MaxLists: 4, LongListChance: 6, VeryLongListChance: 40,
		MaxConds: 8, PoolSize: 24, Actions: NamedActions, Defaults: NamedActions}
}

// GenMixed generates a defect-free policy mixing unconditional and
// conditional entries.
func GenMixed(r *rand.Rand, t *Target, mp MixedParams) *seccomp.Policy {
	names := append([]string{}, t.Names...)
	r.Shuffle(len(names), func(i, j int) { names[i], names[j] = names[j], names[i] })
	ps := mp.PoolSize
	if ps > len(names) {
		ps = len(names)
	}
	pool := names[:8+r.Intn(ps-7)]
	p := &seccomp.Policy{DefaultAction: mp.Defaults[r.Intn(len(mp.Defaults))]}
	ng := 1 + r.Intn(mp.MaxGroups)
	for g := 0; g < ng; g++ {
		grp := seccomp.SyscallGroup{Action: mp.Actions[r.Intn(len(mp.Actions))]}
		if mp.DistinctDefault {
			for grp.Action == p.DefaultAction {
				grp.Action = mp.Actions[r.Intn(len(mp.Actions))]
			}
		}
		used := map[string]bool{}
		nn := r.Intn(mp.MaxNames + 1)
		src := pool
		if mp.BigNamesChance > 0 && r.Intn(mp.BigNamesChance) == 0 {
			nn = 100 + r.Intn(len(names)-100)
			src = names
		}
		for i := 0; i < nn; i++ {
			n := src[r.Intn(len(src))]
			if r.Intn(10) < 7 { // mostly names outside the small pool, so that later conditional entries are not all shadowed
				n = names[r.Intn(len(names))]
			}
			if !used[n] {
				used[n] = true
				grp.Names = append(grp.Names, n)
			}
		}
		nc := r.Intn(mp.MaxCondEntries + 1)
		for i := 0; i < nc; i++ {
			n := pool[r.Intn(len(pool))]
			if used[n] {
				continue
			}
			nl := 1 + r.Intn(mp.MaxLists)
			if mp.LongListChance > 0 && r.Intn(mp.LongListChance) == 0 {
				nl = 10 + r.Intn(21)
			}
			var prev []seccomp.ArgumentConditions
			for l := 0; l < nl; l++ {
				// related lists: a list derived from an earlier list of the same syscall (prefix, suffix, extension,
				// permutation, exact copy, one condition changed)
				if len(prev) > 0 && r.Intn(4) == 0 {
					d := deriveList(r, t, pool, prev[r.Intn(len(prev))])
					prev = append(prev, d)
					grp.NamesWithCondtions = append(grp.NamesWithCondtions, seccomp.NameWithConditions{Name: n, Conditions: d})
					continue
				}
				nconds := 1 + r.Intn(mp.MaxConds)
				if mp.VeryLongListChance > 0 && r.Intn(mp.VeryLongListChance) == 0 {
					nconds = 9 + r.Intn(70) // one list alone spans more than 255 instructions
				}
				cs := GenConds(r, t, pool, nconds)
				prev = append(prev, cs)
				grp.NamesWithCondtions = append(grp.NamesWithCondtions,
					seccomp.NameWithConditions{Name: n, Conditions: cs})
			}
		}
		// Interleave the entries of different syscalls: same-name entries need
		// not be adjacent in the configuration.
		if r.Intn(2) == 0 {
			w := grp.NamesWithCondtions
			r.Shuffle(len(w), func(i, j int) { w[i], w[j] = w[j], w[i] })
		}
		p.Syscalls = append(p.Syscalls, grp)
	}
	return p
}

// GenConds generates a non-empty condition list (repeated arguments allowed).
// Three of four lists are satisfiable by construction: a hidden witness vector
// is drawn first and every condition is chosen so that the witness satisfies
// it, which makes the deep branches of the compiled list reachable; the rest
// are arbitrary (and often contradictory).
func GenConds(r *rand.Rand, t *Target, pool []string, n int) seccomp.ArgumentConditions {
	if r.Intn(4) != 0 {
		return genCondsSat(r, t, pool, n)
	}
	var cs seccomp.ArgumentConditions
	for k := 0; k < n; k++ {
		cs = append(cs, seccomp.Condition{Argument: uint32(r.Intn(6)), Operation: AllOps[r.Intn(8)], Value: RandValue(r, t, pool)})
	}
	return cs
}

// NamesOnlySizes are the per-group list sizes of the C01 profile (negative:
// fraction of the table).
func NamesOnlySizes(tableLen int) []int {
	return []int{0, 1, 2, 3, 127, 128, 250, 251, 252, 253, 254, 255, 256, 257, 258, tableLen / 2, tableLen}
}

// GenNamesOnly generates a policy without conditions. mode 0: random sizes;
// mode 1: the whole table split over k groups in table order; mode 2: split
// after shuffling.
func GenNamesOnly(r *rand.Rand, t *Target, mode int, actions, defaults []seccomp.Action) *seccomp.Policy {
	p := &seccomp.Policy{DefaultAction: defaults[r.Intn(len(defaults))]}
	names := append([]string{}, t.Names...)
	switch mode {
	case 1, 2:
		if mode == 1 {
			sort.Slice(names, func(i, j int) bool { return t.Num[names[i]] < t.Num[names[j]] })
		} else {
			r.Shuffle(len(names), func(i, j int) { names[i], names[j] = names[j], names[i] })
		}
		k := 1 + r.Intn(8)
		cuts := []int{0}
		for i := 1; i < k; i++ {
			cuts = append(cuts, r.Intn(len(names)+1))
		}
		cuts = append(cuts, len(names))
		sort.Ints(cuts)
		for i := 0; i+1 < len(cuts); i++ {
			p.Syscalls = append(p.Syscalls, seccomp.SyscallGroup{Names: append([]string{}, names[cuts[i]:cuts[i+1]]...), Action: actions[r.Intn(len(actions))]})
		}
	case 3: // many small groups (9..150), names overlapping between groups
		ng := 9 + r.Intn(142)
		pool := names
		r.Shuffle(len(pool), func(i, j int) { pool[i], pool[j] = pool[j], pool[i] })
		pool = pool[:5+r.Intn(60)]
		for g := 0; g < ng; g++ {
			var ns []string
			seen := map[string]bool{}
			for k := 0; k < r.Intn(4); k++ {
				n := pool[r.Intn(len(pool))]
				if !seen[n] {
					seen[n] = true
					ns = append(ns, n)
				}
			}
			p.Syscalls = append(p.Syscalls, seccomp.SyscallGroup{Names: ns, Action: actions[r.Intn(len(actions))]})
		}
	default:
		sizes := NamesOnlySizes(len(names))
		ng := 1 + r.Intn(8)
		for g := 0; g < ng; g++ {
			r.Shuffle(len(names), func(i, j int) { names[i], names[j] = names[j], names[i] })
			sz := sizes[r.Intn(len(sizes))]
			if r.Intn(3) == 0 {
				sz = r.Intn(12)
			}
			if sz > len(names) {
				sz = len(names)
			}
			p.Syscalls = append(p.Syscalls, seccomp.SyscallGroup{Names: append([]string{}, names[:sz]...), Action: actions[r.Intn(len(actions))]})
		}
	}
	return p
}

// ---------------------------------------------------------------------------
// E4: events

// NrClasses returns representatives of every class of the partition of the
// 32-bit nr domain induced by the constants of the compiled program and the
// numbers the policy lists: for every constant c the values c-1, c, c+1, plus
// fixed boundaries.
func NrClasses(c *Compiled, ref *Ref) []uint32 {
	set := map[uint32]bool{}
	add := func(v uint32) { set[v-1] = true; set[v] = true; set[v+1] = true }
	for _, in := range c.Raw {
		switch in.Op {
		case opJeqK, opJgtK, opJgeK, opJsetK:
			add(in.K)
		}
	}
	for _, g := range ref.groups {
		for nr := range g {
			add(nr)
		}
	}
	for _, v := range []uint32{0, 1, 0x3ffffffe, 0x3fffffff, 0x40000000, 0x40000001, 0x7fffffff, 0x80000000, 0xfffffffe, 0xffffffff} {
		set[v] = true
	}
	// gaps of the table: one unlisted number per run between listed ones is
	// already produced by c+1/c-1.
	out := make([]uint32, 0, len(set))
	for v := range set {
		out = append(out, v)
	}
	sort.Slice(out, func(i, j int) bool { return out[i] < out[j] })
	return out
}

// PolicyNumbers lists the syscall numbers a policy mentions, in order of
// first appearance.
func PolicyNumbers(p *seccomp.Policy, t *Target) []uint32 {
	seen := map[uint32]bool{}
	var out []uint32
	add := func(n string) {
		if nr, ok := t.Num[n]; ok && !seen[nr] {
			seen[nr] = true
			out = append(out, nr)
		}
	}
	for _, g := range p.Syscalls {
		for _, n := range g.Names {
			add(n)
		}
		for _, nc := range g.NamesWithCondtions {
			add(nc.Name)
		}
	}
	return out
}

// AdversarialPool collects values that make a wrong load or a stale
// accumulator change the verdict: listed syscall numbers, operands, their
// halves swapped and shifted.
func AdversarialPool(p *seccomp.Policy, t *Target) []uint64 {
	set := map[uint64]bool{0: true, ^uint64(0): true}
	nums := PolicyNumbers(p, t)
	if len(nums) > 64 {
		nums = nums[:64]
	}
	for _, nr := range nums {
		v := uint64(nr)
		set[v], set[v<<32], set[v<<32|v] = true, true, true
	}
	for _, g := range p.Syscalls {
		for _, nc := range g.NamesWithCondtions {
			for _, c := range nc.Conditions {
				v := c.Value
				set[v], set[v>>32|v<<32] = true, true
			}
		}
	}
	out := make([]uint64, 0, len(set))
	for v := range set {
		out = append(out, v)
	}
	sort.Slice(out, func(i, j int) bool { return out[i] < out[j] })
	if len(out) > 4096 {
		out = out[:4096]
	}
	return out
}

func FillArgs(r *rand.Rand, pool []uint64) (a [6]uint64) {
	for i := range a {
		a[i] = pool[r.Intn(len(pool))]
	}
	return
}

// condCandidates are argument values around one condition's operand.
func condCandidates(c seccomp.Condition) []uint64 {
	v := c.Value
	hi, lo := v>>32, v&0xffffffff
	cands := []uint64{v, v + 1, v - 1, v + 1<<32, v - 1<<32, 0, ^uint64(0), ^v, hi << 32, lo, v ^ 1, v ^ 1<<32, v ^ 1<<63,
		hi<<32 | (lo+1)&0xffffffff, hi<<32 | (lo-1)&0xffffffff, (hi+1)<<32 | lo, (hi-1)<<32 | lo, lo<<32 | hi, v & (v - 1), v | (v + 1)}
	if v != 0 {
		cands = append(cands, v&-v, ^(v & -v)) // lowest set bit and its complement
	}
	return cands
}

// Satisfy finds argument values that make every condition of the list hold
// (ok=false if the candidate search fails, e.g. contradictory lists).
func Satisfy(r *rand.Rand, conds []seccomp.Condition, base [6]uint64) ([6]uint64, bool) {
	args := base
	for a := uint32(0); a < 6; a++ {
		var on []seccomp.Condition
		for _, c := range conds {
			if c.Argument == a {
				on = append(on, c)
			}
		}
		if len(on) == 0 {
			continue
		}
		v, ok := solve(r, on, nil)
		if !ok {
			return args, false
		}
		args[a] = v
	}
	return args, true
}

// solve finds a value satisfying all of must and violating fail (if non-nil).
func solve(r *rand.Rand, must []seccomp.Condition, fail *seccomp.Condition) (uint64, bool) {
	var cands []uint64
	for _, c := range must {
		cands = append(cands, condCandidates(c)...)
	}
	if fail != nil {
		cands = append(cands, condCandidates(*fail)...)
	}
	r.Shuffle(len(cands), func(i, j int) { cands[i], cands[j] = cands[j], cands[i] })
	for i := 0; i < 64; i++ {
		cands = append(cands, r.Uint64())
	}
	for _, v := range cands {
		ok := true
		for _, c := range must {
			if !Holds(c, v) {
				ok = false
				break
			}
		}
		if ok && fail != nil && Holds(*fail, v) {
			ok = false
		}
		if ok {
			return v, true
		}
	}
	return 0, false
}

// FailExactly returns arguments under which condition k of the list fails
// and all other conditions hold (conditions on other arguments are solved
// independently; conditions on the same argument jointly).
func FailExactly(r *rand.Rand, conds []seccomp.Condition, k int, base [6]uint64) ([6]uint64, bool) {
	args := base
	for a := uint32(0); a < 6; a++ {
		var on []seccomp.Condition
		var fail *seccomp.Condition
		for i, c := range conds {
			if c.Argument != a {
				continue
			}
			if i == k {
				cc := c
				fail = &cc
			} else {
				on = append(on, c)
			}
		}
		if len(on) == 0 && fail == nil {
			continue
		}
		v, ok := solve(r, on, fail)
		if !ok {
			return args, false
		}
		args[a] = v
	}
	return args, true
}

func genCondsSat(r *rand.Rand, t *Target, pool []string, n int) seccomp.ArgumentConditions {
	var wit [6]uint64
	for i := range wit {
		wit[i] = RandValue(r, t, pool)
	}
	var cs seccomp.ArgumentConditions
	for k := 0; k < n; k++ {
		a := uint32(r.Intn(6))
		w := wit[a]
		var c seccomp.Condition
		for try := 0; try < 20; try++ {
			op := AllOps[r.Intn(8)]
			v := RandValue(r, t, pool)
			switch op {
			case "Equal":
				v = w
			case "NotEqual":
				if v == w {
					v = w ^ 1<<uint(r.Intn(64))
				}
			case "GreaterThan":
				if w == 0 {
					continue
				}
				v = w - 1
				if w > 4 {
					v -= uint64(r.Intn(3))
				}
			case "GreaterOrEqual":
				v = w
				if w > 4 && r.Intn(3) != 0 {
					v -= uint64(r.Intn(3))
				}
			case "LessThan":
				if w == ^uint64(0) {
					continue
				}
				v = w + 1
				if r.Intn(2) == 0 && w < ^uint64(0)-(1<<33) {
					v = w + 1<<32
				}
			case "LessOrEqual":
				v = w
				if r.Intn(2) == 0 && w < ^uint64(0)-5 {
					v = w + uint64(r.Intn(4))
				}
			case "BitsSet":
				if w == 0 {
					continue
				}
				v = (w & -w) | (v & 0x0000ffff0000ffff)
				if r.Intn(2) == 0 {
					v = 1 << uint(63-leadingZeros(w))
				}
			case "BitsNotSet":
				v &^= w
				if v == 0 && ^w != 0 {
					v = ^w & -(^w)
				}
			}
			c = seccomp.Condition{Argument: a, Operation: op, Value: v}
			if Holds(c, w) {
				break
			}
			c = seccomp.Condition{}
		}
		if c.Operation == "" {
			c = seccomp.Condition{Argument: a, Operation: "Equal", Value: w}
		}
		cs = append(cs, c)
	}
	return cs
}

func leadingZeros(v uint64) int {
	n := 0
	for i := 63; i >= 0 && v&(1<<uint(i)) == 0; i-- {
		n++
	}
	return n
}

// CondNeighbourhood returns argument vectors derived from sat (which
// satisfies the whole list) that vary only the argument tested by condition
// k over the hi/lo neighbourhood of its operand, keeping every other
// condition of the list satisfied. One vector per distinct (outcome of
// condition k, sign of the hi compare, sign of the lo compare) class, so
// that every branch of the condition's lowering is taken with the rest of
// the list in its matching state.
func CondNeighbourhood(conds []seccomp.Condition, k int, sat [6]uint64) [][6]uint64 {
	c := conds[k]
	vh, vl := uint32(c.Value>>32), uint32(c.Value)
	sh, sl := uint32(sat[c.Argument]>>32), uint32(sat[c.Argument])
	his := []uint32{vh - 1, vh, vh + 1, sh, ^vh, 0, 0xffffffff}
	los := []uint32{vl - 1, vl, vl + 1, sl, ^vl, 0, 0xffffffff}
	sign := func(a, b uint32) int {
		switch {
		case a < b:
			return 0
		case a == b:
			return 1
		}
		return 2
	}
	seen := map[[3]int]bool{}
	var out [][6]uint64
	for _, h := range his {
		for _, l := range los {
			v := uint64(h)<<32 | uint64(l)
			okOthers := true
			for i, o := range conds {
				if i != k && o.Argument == c.Argument && !Holds(o, v) {
					okOthers = false
					break
				}
			}
			if !okOthers {
				continue
			}
			outcome := 0
			if Holds(c, v) {
				outcome = 1
			}
			key := [3]int{outcome, sign(h, vh), sign(l, vl)}
			if c.Operation == "BitsSet" || c.Operation == "BitsNotSet" {
				key = [3]int{outcome, b2i(h&vh != 0), b2i(l&vl != 0)}
			}
			if seen[key] {
				continue
			}
			seen[key] = true
			a := sat
			a[c.Argument] = v
			out = append(out, a)
		}
	}
	return out
}

func b2i(b bool) int {
	if b {
		return 1
	}
	return 0
}

// solveMulti finds a value satisfying all of must and none of mustNot.
func solveMulti(r *rand.Rand, must, mustNot []seccomp.Condition) (uint64, bool) {
	var cands []uint64
	for _, c := range must {
		cands = append(cands, condCandidates(c)...)
	}
	for _, c := range mustNot {
		cands = append(cands, condCandidates(c)...)
	}
	// pairwise combinations of halves help with mixed constraints
	n := len(cands)
	for i := 0; i < n && i < 24; i++ {
		for j := 0; j < n && j < 24; j++ {
			cands = append(cands, cands[i]&0xffffffff00000000|cands[j]&0xffffffff)
		}
	}
	r.Shuffle(len(cands), func(i, j int) { cands[i], cands[j] = cands[j], cands[i] })
	for i := 0; i < 64; i++ {
		cands = append(cands, r.Uint64())
	}
	for _, v := range cands {
		ok := true
		for _, c := range must {
			if !Holds(c, v) {
				ok = false
				break
			}
		}
		if ok {
			for _, c := range mustNot {
				if Holds(c, v) {
					ok = false
					break
				}
			}
		}
		if ok {
			return v, true
		}
	}
	return 0, false
}

// SatisfyAvoiding finds arguments that satisfy conds while every list in
// avoid has at least one violated condition (ok=false if it cannot).
func SatisfyAvoiding(r *rand.Rand, conds []seccomp.Condition, avoid [][]seccomp.Condition, base [6]uint64) ([6]uint64, bool) {
	args, ok := Satisfy(r, conds, base)
	if !ok {
		return args, false
	}
	must := map[uint32][]seccomp.Condition{}
	for _, c := range conds {
		must[c.Argument] = append(must[c.Argument], c)
	}
	mustNot := map[uint32][]seccomp.Condition{}
	listHolds := func(l []seccomp.Condition) bool {
		for _, c := range l {
			if !Holds(c, args[c.Argument]) {
				return false
			}
		}
		return true
	}
	for _, l := range avoid {
		if !listHolds(l) {
			continue
		}
		order := r.Perm(len(l))
		fixed := false
		for _, ci := range order {
			c := l[ci]
			v, ok := solveMulti(r, must[c.Argument], append(append([]seccomp.Condition{}, mustNot[c.Argument]...), c))
			if ok {
				args[c.Argument] = v
				mustNot[c.Argument] = append(mustNot[c.Argument], c)
				fixed = true
				break
			}
		}
		if !fixed {
			return args, false
		}
	}
	// an earlier list may have become satisfied again through a later change
	for _, l := range avoid {
		if listHolds(l) {
			return args, false
		}
	}
	return args, true
}

func deriveList(r *rand.Rand, t *Target, pool []string, src seccomp.ArgumentConditions) seccomp.ArgumentConditions {
	d := append(seccomp.ArgumentConditions{}, src...)
	switch r.Intn(6) {
	case 0: // strict prefix
		if len(d) > 1 {
			d = d[:1+r.Intn(len(d)-1)]
		}
	case 1: // suffix
		if len(d) > 1 {
			d = d[1+r.Intn(len(d)-1):]
		}
	case 2: // extension
		d = append(d, GenConds(r, t, pool, 1+r.Intn(2))...)
	case 3: // permutation
		r.Shuffle(len(d), func(i, j int) { d[i], d[j] = d[j], d[i] })
	case 4: // exact copy
	default: // one condition changed
		k := r.Intn(len(d))
		switch r.Intn(3) {
		case 0:
			d[k].Value ^= 1 << uint(r.Intn(64))
		case 1:
			d[k].Operation = AllOps[r.Intn(8)]
		default:
			d[k].Argument = uint32(r.Intn(6))
		}
	}
	return d
}

// WithDataBits gives some groups an action word that carries data in its low 16 bits (ERRNO|EACCES, TRACE|7, ...):
// every uint32 is a constructible group action, and the compiled filter must return exactly that word. Half of the
// changed groups get the class of the default action (same action, other data), the others any class. No changed
// group returns the very word the default action returns. Returns the number of groups changed.
func WithDataBits(r *rand.Rand, p *seccomp.Policy) int {
	n := 0
	for gi := range p.Syscalls {
		if r.Intn(2) == 0 && gi != len(p.Syscalls)-1 && n > 0 {
			continue
		}
		class := uint32(NamedActions[r.Intn(len(NamedActions))]) &^ 0xffff
		if r.Intn(2) == 0 {
			class = uint32(p.DefaultAction) &^ 0xffff
		}
		data := []uint32{1, 2, 5, 13, 38, 0x7f, 0xff, 0x100, 0xfff, 0x1000, 0xffff, uint32(r.Intn(0x10000))}[r.Intn(12)]
		a := seccomp.Action(class | data)
		if Enc(a) == Enc(p.DefaultAction) {
			a ^= 2
		}
		p.Syscalls[gi].Action = a
		n++
	}
	return n
}

// AddDataBits keeps every group's action class and puts data into the low 16 bits of some of them (what the action
// does to a syscall stays the same kind of thing: a child that must survive its own filter still does).
func AddDataBits(r *rand.Rand, p *seccomp.Policy) int {
	n := 0
	for gi := range p.Syscalls {
		if r.Intn(2) == 0 {
			continue
		}
		data := []uint32{1, 2, 5, 13, 38, 0x7f, 0xff, 0x100, 0xfff, 0x1000, 0xffff, uint32(r.Intn(0x10000))}[r.Intn(12)]
		a := seccomp.Action(uint32(p.Syscalls[gi].Action)&^0xffff | data)
		if Enc(a) == Enc(p.DefaultAction) {
			a ^= 2
		}
		p.Syscalls[gi].Action = a
		n++
	}
	return n
}

// ShareBackingArray lays the name lists of all groups out in one array: every group's Names becomes a sub-slice of it
// (so does every group's NamesWithCondtions of one array of entries), with the following groups' elements in its spare
// capacity - as a caller gets who carves the groups out of one list (list[:k], list[k:]). The policy value is the same.
func ShareBackingArray(p *seccomp.Policy) {
	var all []string
	var ents []seccomp.NameWithConditions
	for _, g := range p.Syscalls {
		all = append(all, g.Names...)
		ents = append(ents, g.NamesWithCondtions...)
	}
	all = append(all, "spare-0", "spare-1", "spare-2")[:len(all)] // a little spare room behind the last group too
	off, eoff := 0, 0
	for gi := range p.Syscalls {
		g := &p.Syscalls[gi]
		if g.Names != nil {
			n := len(g.Names)
			g.Names = all[off : off+n]
			off += n
		}
		if g.NamesWithCondtions != nil {
			n := len(g.NamesWithCondtions)
			g.NamesWithCondtions = ents[eoff : eoff+n]
			eoff += n
		}
	}
}
