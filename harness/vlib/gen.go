package vlib

import (
	"math/rand"
	"sort"

	seccomp "github.com/elastic/go-seccomp-bpf"
)

var AllOps = []seccomp.Operation{"Equal", "NotEqual", "GreaterThan", "LessThan", "GreaterOrEqual", "LessOrEqual", "BitsSet", "BitsNotSet"}

// BoundaryValues are the 64-bit operand classes of C02.
var BoundaryValues = []uint64{
	0, 1, 2, 1<<31 - 1, 1 << 31, 1<<32 - 1, 1 << 32, 1<<32 + 1, 1<<63 - 1, 1 << 63, 1<<64 - 2, 1<<64 - 1,
	0x1234567812345678, 0xffffffff00000000, 0x00000000ffffffff, 0x0000000100000000, 0x8000000080000000,
	1 << 0, 1 << 31, 1 << 32, 1 << 63, 0xaaaaaaaaaaaaaaaa, 0x5555555555555555, 0xaaaaaaaa55555555,
	0x0102030405060708, 0x1020304050607080, 0x10000000, 0x7fffffffffffffff, 0x00000001ffffffff, 0xfffffffe00000001,
}

// RandValue draws an operand: boundary classes, small numbers, syscall
// numbers of the target (so that a stale accumulator matters), random.
func RandValue(r *rand.Rand, t *Target, pool []string) uint64 {
	switch r.Intn(8) {
	case 0, 1:
		return BoundaryValues[r.Intn(len(BoundaryValues))]
	case 2:
		return uint64(r.Intn(8))
	case 3, 4:
		if len(pool) > 0 {
			v := uint64(t.Num[pool[r.Intn(len(pool))]])
			switch r.Intn(4) {
			case 0:
				return v << 32
			case 1:
				return v<<32 | v
			}
			return v
		}
		return uint64(r.Intn(400))
	case 5:
		return uint64(r.Intn(4))<<32 | uint64(r.Intn(4))
	case 6:
		return uint64(r.Uint32())
	}
	return r.Uint64()
}

// MixedParams steers GenMixed.
type MixedParams struct {
	MaxGroups      int
	MaxNames       int // small name lists: 0..MaxNames
	BigNamesChance int // 1/n chance of a large unconditional list (0 = never)
	MaxCondEntries int
	MaxLists       int
	LongListChance int // 1/n chance that an entry gets 10..30 lists
	// VeryLongListChance: 1/n chance that a list gets 9..78 conditions
	VeryLongListChance int
	MaxConds           int
	PoolSize           int // size of the small name pool (repeats across groups come from here)
	Actions            []seccomp.Action
	Defaults           []seccomp.Action
	DistinctDefault    bool
}

func DefaultMixed() MixedParams {
	return MixedParams{MaxGroups: 6, MaxNames: 10, BigNamesChance: 6, MaxCondEntries: 6, MaxLists: 4, LongListChance: 6, VeryLongListChance: 40,
		MaxConds: 8, PoolSize: 24, Actions: NamedActions, Defaults: NamedActions}
}

// GenMixed generates a defect-free policy mixing unconditional and
// conditional entries.
func GenMixed(r *rand.Rand, t *Target, mp MixedParams) *seccomp.Policy {
	names := append([]string{}, t.Names...)
	r.Shuffle(len(names), func(i, j int) { names[i], names[j] = names[j], names[i] })
	ps := mp.PoolSize
	if ps > len(names) {
		ps = len(names)
	}
	pool := names[:8+r.Intn(ps-7)]
	p := &seccomp.Policy{DefaultAction: mp.Defaults[r.Intn(len(mp.Defaults))]}
	ng := 1 + r.Intn(mp.MaxGroups)
	for g := 0; g < ng; g++ {
		grp := seccomp.SyscallGroup{Action: mp.Actions[r.Intn(len(mp.Actions))]}
		if mp.DistinctDefault {
			for grp.Action == p.DefaultAction {
				grp.Action = mp.Actions[r.Intn(len(mp.Actions))]
			}
		}
		used := map[string]bool{}
		nn := r.Intn(mp.MaxNames + 1)
		src := pool
		if mp.BigNamesChance > 0 && r.Intn(mp.BigNamesChance) == 0 {
			nn = 100 + r.Intn(len(names)-100)
			src = names
		}
		for i := 0; i < nn; i++ {
			n := src[r.Intn(len(src))]
			if !used[n] {
				used[n] = true
				grp.Names = append(grp.Names, n)
			}
		}
		nc := r.Intn(mp.MaxCondEntries + 1)
		for i := 0; i < nc; i++ {
			n := pool[r.Intn(len(pool))]
			if used[n] {
				continue
			}
			nl := 1 + r.Intn(mp.MaxLists)
			if mp.LongListChance > 0 && r.Intn(mp.LongListChance) == 0 {
				nl = 10 + r.Intn(21)
			}
			for l := 0; l < nl; l++ {
				nconds := 1 + r.Intn(mp.MaxConds)
				if mp.VeryLongListChance > 0 && r.Intn(mp.VeryLongListChance) == 0 {
					nconds = 9 + r.Intn(70) // one list alone spans more than 255 instructions
				}
				grp.NamesWithCondtions = append(grp.NamesWithCondtions,
					seccomp.NameWithConditions{Name: n, Conditions: GenConds(r, t, pool, nconds)})
			}
		}
		// Interleave the entries of different syscalls: same-name entries need
		// not be adjacent in the configuration.
		if r.Intn(2) == 0 {
			w := grp.NamesWithCondtions
			r.Shuffle(len(w), func(i, j int) { w[i], w[j] = w[j], w[i] })
		}
		p.Syscalls = append(p.Syscalls, grp)
	}
	return p
}

// GenConds generates a non-empty condition list (repeated arguments allowed).
func GenConds(r *rand.Rand, t *Target, pool []string, n int) seccomp.ArgumentConditions {
	var cs seccomp.ArgumentConditions
	for k := 0; k < n; k++ {
		cs = append(cs, seccomp.Condition{Argument: uint32(r.Intn(6)), Operation: AllOps[r.Intn(8)], Value: RandValue(r, t, pool)})
	}
	return cs
}

// NamesOnlySizes are the per-group list sizes of the C01 profile (negative:
// fraction of the table).
func NamesOnlySizes(tableLen int) []int {
	return []int{0, 1, 2, 3, 127, 128, 250, 251, 252, 253, 254, 255, 256, 257, 258, tableLen / 2, tableLen}
}

// GenNamesOnly generates a policy without conditions. mode 0: random sizes;
// mode 1: the whole table split over k groups in table order; mode 2: split
// after shuffling.
func GenNamesOnly(r *rand.Rand, t *Target, mode int, actions, defaults []seccomp.Action) *seccomp.Policy {
	p := &seccomp.Policy{DefaultAction: defaults[r.Intn(len(defaults))]}
	names := append([]string{}, t.Names...)
	switch mode {
	case 1, 2:
		if mode == 1 {
			sort.Slice(names, func(i, j int) bool { return t.Num[names[i]] < t.Num[names[j]] })
		} else {
			r.Shuffle(len(names), func(i, j int) { names[i], names[j] = names[j], names[i] })
		}
		k := 1 + r.Intn(8)
		cuts := []int{0}
		for i := 1; i < k; i++ {
			cuts = append(cuts, r.Intn(len(names)+1))
		}
		cuts = append(cuts, len(names))
		sort.Ints(cuts)
		for i := 0; i+1 < len(cuts); i++ {
			p.Syscalls = append(p.Syscalls, seccomp.SyscallGroup{Names: append([]string{}, names[cuts[i]:cuts[i+1]]...), Action: actions[r.Intn(len(actions))]})
		}
	case 3: // many small groups (9..150), names overlapping between groups
		ng := 9 + r.Intn(142)
		pool := names
		r.Shuffle(len(pool), func(i, j int) { pool[i], pool[j] = pool[j], pool[i] })
		pool = pool[:5+r.Intn(60)]
		for g := 0; g < ng; g++ {
			var ns []string
			seen := map[string]bool{}
			for k := 0; k < r.Intn(4); k++ {
				n := pool[r.Intn(len(pool))]
				if !seen[n] {
					seen[n] = true
					ns = append(ns, n)
				}
			}
			p.Syscalls = append(p.Syscalls, seccomp.SyscallGroup{Names: ns, Action: actions[r.Intn(len(actions))]})
		}
	default:
		sizes := NamesOnlySizes(len(names))
		ng := 1 + r.Intn(8)
		for g := 0; g < ng; g++ {
			r.Shuffle(len(names), func(i, j int) { names[i], names[j] = names[j], names[i] })
			sz := sizes[r.Intn(len(sizes))]
			if r.Intn(3) == 0 {
				sz = r.Intn(12)
			}
			if sz > len(names) {
				sz = len(names)
			}
			p.Syscalls = append(p.Syscalls, seccomp.SyscallGroup{Names: append([]string{}, names[:sz]...), Action: actions[r.Intn(len(actions))]})
		}
	}
	return p
}

// ---------------------------------------------------------------------------
// E4: events

// NrClasses returns representatives of every class of the partition of the
// 32-bit nr domain induced by the constants of the compiled program and the
// numbers the policy lists: for every constant c the values c-1, c, c+1, plus
// fixed boundaries.
func NrClasses(c *Compiled, ref *Ref) []uint32 {
	set := map[uint32]bool{}
	add := func(v uint32) { set[v-1] = true; set[v] = true; set[v+1] = true }
	for _, in := range c.Raw {
		switch in.Op {
		case opJeqK, opJgtK, opJgeK, opJsetK:
			add(in.K)
		}
	}
	for _, g := range ref.groups {
		for nr := range g {
			add(nr)
		}
	}
	for _, v := range []uint32{0, 1, 0x3ffffffe, 0x3fffffff, 0x40000000, 0x40000001, 0x7fffffff, 0x80000000, 0xfffffffe, 0xffffffff} {
		set[v] = true
	}
	// gaps of the table: one unlisted number per run between listed ones is
	// already produced by c+1/c-1.
	out := make([]uint32, 0, len(set))
	for v := range set {
		out = append(out, v)
	}
	sort.Slice(out, func(i, j int) bool { return out[i] < out[j] })
	return out
}

// PolicyNumbers lists the syscall numbers a policy mentions, in order of
// first appearance.
func PolicyNumbers(p *seccomp.Policy, t *Target) []uint32 {
	seen := map[uint32]bool{}
	var out []uint32
	add := func(n string) {
		if nr, ok := t.Num[n]; ok && !seen[nr] {
			seen[nr] = true
			out = append(out, nr)
		}
	}
	for _, g := range p.Syscalls {
		for _, n := range g.Names {
			add(n)
		}
		for _, nc := range g.NamesWithCondtions {
			add(nc.Name)
		}
	}
	return out
}

// AdversarialPool collects values that make a wrong load or a stale
// accumulator change the verdict: listed syscall numbers, operands, their
// halves swapped and shifted.
func AdversarialPool(p *seccomp.Policy, t *Target) []uint64 {
	set := map[uint64]bool{0: true, ^uint64(0): true}
	nums := PolicyNumbers(p, t)
	if len(nums) > 64 {
		nums = nums[:64]
	}
	for _, nr := range nums {
		v := uint64(nr)
		set[v], set[v<<32], set[v<<32|v] = true, true, true
	}
	for _, g := range p.Syscalls {
		for _, nc := range g.NamesWithCondtions {
			for _, c := range nc.Conditions {
				v := c.Value
				set[v], set[v>>32|v<<32] = true, true
			}
		}
	}
	out := make([]uint64, 0, len(set))
	for v := range set {
		out = append(out, v)
	}
	sort.Slice(out, func(i, j int) bool { return out[i] < out[j] })
	if len(out) > 4096 {
		out = out[:4096]
	}
	return out
}

func FillArgs(r *rand.Rand, pool []uint64) (a [6]uint64) {
	for i := range a {
		a[i] = pool[r.Intn(len(pool))]
	}
	return
}

// condCandidates are argument values around one condition's operand.
func condCandidates(c seccomp.Condition) []uint64 {
	v := c.Value
	hi, lo := v>>32, v&0xffffffff
	cands := []uint64{v, v + 1, v - 1, v + 1<<32, v - 1<<32, 0, ^uint64(0), ^v, hi << 32, lo, v ^ 1, v ^ 1<<32, v ^ 1<<63,
		hi<<32 | (lo+1)&0xffffffff, hi<<32 | (lo-1)&0xffffffff, (hi+1)<<32 | lo, (hi-1)<<32 | lo, lo<<32 | hi, v & (v - 1), v | (v + 1)}
	if v != 0 {
		cands = append(cands, v&-v, ^(v & -v)) // lowest set bit and its complement
	}
	return cands
}

// Satisfy finds argument values that make every condition of the list hold
// (ok=false if the candidate search fails, e.g. contradictory lists).
func Satisfy(r *rand.Rand, conds []seccomp.Condition, base [6]uint64) ([6]uint64, bool) {
	args := base
	for a := uint32(0); a < 6; a++ {
		var on []seccomp.Condition
		for _, c := range conds {
			if c.Argument == a {
				on = append(on, c)
			}
		}
		if len(on) == 0 {
			continue
		}
		v, ok := solve(r, on, nil)
		if !ok {
			return args, false
		}
		args[a] = v
	}
	return args, true
}

// solve finds a value satisfying all of must and violating fail (if non-nil).
func solve(r *rand.Rand, must []seccomp.Condition, fail *seccomp.Condition) (uint64, bool) {
	var cands []uint64
	for _, c := range must {
		cands = append(cands, condCandidates(c)...)
	}
	if fail != nil {
		cands = append(cands, condCandidates(*fail)...)
	}
	r.Shuffle(len(cands), func(i, j int) { cands[i], cands[j] = cands[j], cands[i] })
	for i := 0; i < 64; i++ {
		cands = append(cands, r.Uint64())
	}
	for _, v := range cands {
		ok := true
		for _, c := range must {
			if !Holds(c, v) {
				ok = false
				break
			}
		}
		if ok && fail != nil && Holds(*fail, v) {
			ok = false
		}
		if ok {
			return v, true
		}
	}
	return 0, false
}

// FailExactly returns arguments under which condition k of the list fails
// and all other conditions hold (conditions on other arguments are solved
// independently; conditions on the same argument jointly).
func FailExactly(r *rand.Rand, conds []seccomp.Condition, k int, base [6]uint64) ([6]uint64, bool) {
	args := base
	for a := uint32(0); a < 6; a++ {
		var on []seccomp.Condition
		var fail *seccomp.Condition
		for i, c := range conds {
			if c.Argument != a {
				continue
			}
			if i == k {
				cc := c
				fail = &cc
			} else {
				on = append(on, c)
			}
		}
		if len(on) == 0 && fail == nil {
			continue
		}
		v, ok := solve(r, on, fail)
		if !ok {
			return args, false
		}
		args[a] = v
	}
	return args, true
}
