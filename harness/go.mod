module verif/harness

go 1.23

require (
	github.com/anishathalye/porcupine v1.3.0
	github.com/elastic/go-seccomp-bpf v0.0.0
	github.com/elastic/go-ucfg v0.8.8
	golang.org/x/net v0.24.0
	golang.org/x/sys v0.19.0
	gopkg.in/yaml.v2 v2.4.0
)

replace github.com/elastic/go-seccomp-bpf => /repo
