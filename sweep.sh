#!/bin/bash
# sweep.sh <tier> <seed>... : runs the whole suite at several seeds, prints only lines that are not "rc=0"
tier="$1"; shift
cd "$(dirname "$(readlink -f "$0")")"
for s in "$@"; do
	./runall.sh "$tier" "$s" 2>&1 | grep -v " rc=0 " | sed "s/^/seed $s: /"
	echo "seed $s done $(date +%H:%M:%S)"
done
