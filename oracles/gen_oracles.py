#!/usr/bin/env python3
"""Generates the vendored oracle tables from files present on this image.

Run once by hand; the JSON output is committed. Sources (independent of
/repo's arch/mk_syscalls_linux.go, which parses the kernel's .tbl files):
  * kernel UAPI headers (linux-libc-dev): asm/unistd_64.h, unistd_32.h, unistd_x32.h
  * golang.org/x/sys/unix zsysnum_linux_{amd64,386,arm,arm64}.go (generated from kernel headers through cpp)
  * Go's frozen syscall/zsysnum_linux_{amd64,386,arm,arm64}.go
  * linux/audit.h + linux/elf-em.h through the C preprocessor for AUDIT_ARCH_*
  * linux/seccomp.h, linux/prctl.h, asm-generic/errno*.h for the C19 constants
"""
import json, re, subprocess, glob, os, sys

out = {"provenance": {}, "tables": {}, "audit_arch": {}, "constants": {}}

def hdr(path):
    t = {}
    for l in open(path):
        m = re.match(r'#define\s+__NR_(\w+)\s+\(?(.+?)\)?\s*$', l)
        if m:
            name, expr = m.group(1), m.group(2)
            expr = expr.replace('__X32_SYSCALL_BIT', '0x40000000')
            try:
                t[name] = eval(expr)
            except Exception:
                pass
    return t

inc = '/usr/include/x86_64-linux-gnu/asm/'
ver = subprocess.run(['dpkg-query', '-W', 'linux-libc-dev'], capture_output=True, text=True).stdout.strip()
out["provenance"]["kernel_headers"] = ver
out["tables"]["x86_64"] = {"uapi": hdr(inc + 'unistd_64.h')}
out["tables"]["i386"] = {"uapi": hdr(inc + 'unistd_32.h')}
x32 = hdr(inc + 'unistd_x32.h')
out["tables"]["x32"] = {"uapi": {k: v & ~0x40000000 for k, v in x32.items()}}
# ARM-private calls: arch/arm/include/uapi/asm/unistd.h defines them as (__ARM_NR_BASE + n) with
# __ARM_NR_BASE = __NR_SYSCALL_BASE + 0x0f0000 (EABI base 0). No header of this x86 image and neither Go table lists
# them, so they are transcribed here by hand from the kernel source.
out["tables"]["arm"] = {"kernel_arm_private_transcribed": {"breakpoint": 0x0f0001, "cacheflush": 0x0f0002, "usr26": 0x0f0003,
                                                             "usr32": 0x0f0004, "set_tls": 0x0f0005, "get_tls": 0x0f0006}}
out["tables"]["aarch64"] = {}

def gosys(path):
    t = {}
    for l in open(path):
        m = re.match(r'\s*SYS_(\w+)\s*=\s*(\d+)', l)
        if m:
            t[m.group(1).lower()] = int(m.group(2))
    return t

modcache = subprocess.run(['go', 'env', 'GOMODCACHE'], capture_output=True, text=True).stdout.strip()
goroot = subprocess.run(['go', 'env', 'GOROOT'], capture_output=True, text=True).stdout.strip()
xsys = os.path.join(modcache, 'golang.org/x/sys@v0.48.0/unix')
out["provenance"]["xsys"] = "golang.org/x/sys@v0.48.0/unix/zsysnum_linux_*.go"
out["provenance"]["gosyscall"] = goroot + "/src/syscall/zsysnum_linux_*.go (" + subprocess.run(['go', 'version'], capture_output=True, text=True).stdout.strip() + ")"
for ours, goarch in (("x86_64", "amd64"), ("i386", "386"), ("arm", "arm"), ("aarch64", "arm64")):
    out["tables"][ours]["xsys"] = gosys(os.path.join(xsys, 'zsysnum_linux_%s.go' % goarch))
    out["tables"][ours]["gosyscall"] = gosys(os.path.join(goroot, 'src/syscall/zsysnum_linux_%s.go' % goarch))

# AUDIT_ARCH_* through cpp
names = sorted(set(re.findall(r'#define\s+(AUDIT_ARCH_\w+)', open('/usr/include/linux/audit.h').read())))
src = '#include <stdio.h>\n#include <linux/audit.h>\nint main(){\n' + ''.join(
    '#ifdef %s\nprintf("%s %%u\\n",(unsigned)(%s));\n#endif\n' % (n, n, n) for n in names) + 'return 0;}\n'
open('/tmp/_aa.c', 'w').write(src)
subprocess.check_call(['gcc', '-o', '/tmp/_aa', '/tmp/_aa.c'])
for l in subprocess.run(['/tmp/_aa'], capture_output=True, text=True).stdout.splitlines():
    n, v = l.split()
    out["audit_arch"][n[len("AUDIT_ARCH_"):]] = int(v)
os.remove('/tmp/_aa.c'); os.remove('/tmp/_aa')
out["provenance"]["audit_arch"] = "/usr/include/linux/audit.h via gcc"

consts = ["SECCOMP_SET_MODE_STRICT", "SECCOMP_SET_MODE_FILTER", "SECCOMP_RET_KILL_THREAD", "SECCOMP_RET_KILL_PROCESS",
          "SECCOMP_RET_TRAP", "SECCOMP_RET_ERRNO", "SECCOMP_RET_TRACE", "SECCOMP_RET_LOG", "SECCOMP_RET_ALLOW",
          "SECCOMP_RET_USER_NOTIF", "SECCOMP_FILTER_FLAG_TSYNC", "SECCOMP_FILTER_FLAG_LOG", "PR_SET_NO_NEW_PRIVS",
          "EPERM", "ENOSYS", "__X32_SYSCALL_BIT",
          "SECCOMP_FILTER_FLAG_SPEC_ALLOW", "SECCOMP_FILTER_FLAG_NEW_LISTENER", "SECCOMP_FILTER_FLAG_TSYNC_ESRCH",
          "SECCOMP_FILTER_FLAG_WAIT_KILLABLE_RECV", "SECCOMP_RET_KILL", "SECCOMP_RET_ACTION_FULL", "SECCOMP_RET_ACTION",
          "SECCOMP_RET_DATA", "SECCOMP_MODE_DISABLED", "SECCOMP_MODE_STRICT", "SECCOMP_MODE_FILTER",
          "SECCOMP_GET_ACTION_AVAIL", "SECCOMP_GET_NOTIF_SIZES", "PR_GET_NO_NEW_PRIVS", "PR_SET_SECCOMP", "PR_GET_SECCOMP"]
src = '#include <stdio.h>\n#include <errno.h>\n#include <linux/seccomp.h>\n#include <linux/prctl.h>\n#include <asm/unistd.h>\nint main(){\n' + ''.join(
    'printf("%s %%llu\\n",(unsigned long long)(unsigned)(%s));\n' % (n, n) for n in consts) + 'return 0;}\n'
open('/tmp/_cc.c', 'w').write(src)
subprocess.check_call(['gcc', '-o', '/tmp/_cc', '/tmp/_cc.c'])
for l in subprocess.run(['/tmp/_cc'], capture_output=True, text=True).stdout.splitlines():
    n, v = l.split()
    out["constants"][n] = int(v)
os.remove('/tmp/_cc.c'); os.remove('/tmp/_cc')
out["provenance"]["constants"] = "linux/seccomp.h, linux/prctl.h, errno.h, asm/unistd.h via gcc"

json.dump(out, open(os.path.join(os.path.dirname(os.path.abspath(__file__)), 'oracles.json'), 'w'), indent=1, sort_keys=True)
for a, srcs in out["tables"].items():
    print(a, {k: len(v) for k, v in srcs.items()})
print(len(out["audit_arch"]), "audit arch ids;", out["constants"])
