#!/bin/bash
# runall.sh [quick|thorough] [seed]  -- runs every registered check, prints one line each
tier="${1:-quick}"; seed="${2:-1}"
cd "$(dirname "$(readlink -f "$0")")"
rc_all=0
for id in $(python3 -c "import json;print(' '.join(c['property_id'] for c in json.load(open('MANIFEST.json'))['checks']))"); do
	s=$(date +%s.%N)
	out=$(VERIF_SEED=$seed ./vcheck "$id" "$tier" 2>&1); rc=$?
	e=$(date +%s.%N)
	printf "%s rc=%d %.1fs %s\n" "$id" "$rc" "$(echo "$e - $s" | bc)" "$(echo "$out" | grep -E 'RESULT|VIOLATION|INCONCLUSIVE|KNOWN-FINDING' | head -3 | tr '\n' ' ' | cut -c1-220)"
	[ $rc -ne 0 ] && rc_all=1
done
exit $rc_all
