#!/usr/bin/env python3
"""Writes MANIFEST.json from the table below (kept in one place so it stays valid)."""
import json, subprocess

HOOK_COMMITS = ["7cba0d6"]

# id: (category, technique, engine, design_ref, text, note)
CHECKS = {
 "C01": ("translation_validation", "differential execution: real compiler output run by own cBPF interpreter vs reference semantics over the complete nr partition", "E1+E2+E3+E4", "DESIGN.md 3/C01",
         "Every generated name-only policy (catalogue + PRNG, 4 architectures, up to 8 groups and the whole table) is compiled by the real compiler and the program is executed on one representative of every class of the 32-bit syscall-number partition induced by the program's constants; each verdict is compared with the first-matching-group reference semantics. Complete per program for the nr word, sampled over policies.",
         "Trusts the harness interpreter (calibrated against the running kernel by C08) and the vendored number oracles; arm/aarch64 programs never run on a kernel."),
 "C02": ("translation_validation", "class-enumerated differential execution of single-condition filters under both byte orders (hook H2)", "E1+E2", "DESIGN.md 3/C02",
         "All 8 operations x 6 argument positions x boundary/PRNG operands, each evaluated on the hi/lo neighbourhood product of the operand with all other record words set to verdict-flipping values, with the record laid out little- and big-endian; oracle = Go's uint64 operators.",
         "Big-endian is simulated by switching the package's byte-order variable and the record layout; no big-endian machine is involved. Values are enumerated by class, not exhaustively."),
 "C03": ("translation_validation", "directed + leak-probe events on compiled mixed policies vs reference semantics", "E1+E2+E3+E4", "DESIGN.md 3/C03",
         "Policies mixing unconditional and conditional entries (repeated arguments, same syscall in several groups, programs past 255/1000 instructions) are compiled by the real compiler; for every list a satisfying event, for every condition an event failing exactly it, each replayed under other syscall numbers with adversarial argument words; verdicts compared with the reference semantics.",
         "Events are directed/sampled, not exhaustive over argument products; interpreter and oracle numbers trusted as for C01."),
 "C04": ("translation_validation", "executed-instruction oracle on foreign-architecture and x32 events", "E1+E2+E3", "DESIGN.md 3/C04",
         "For name-only and mixed policies, incl. lists that step the architecture jump through both encodings (distance 255/256), every AUDIT_ARCH value, single-bit flips of the policy arch, and x32-bit numbers are run; the verdict must be default / ERRNO(ENOSYS) and the executed instructions must contain no compare on anything but the arch word (or the x32 boundary) and no argument load.",
         "'Never compared against a rule' is judged on the executed instruction trace of the harness interpreter."),
 "C05": ("exploration", "kernel-verifier port (bpf_check_classic + seccomp_check_filter) and reachable-return-set scan on every accepted program", "E5", "DESIGN.md 3/C05",
         "Every accepted policy of the degenerate catalogue, the C01/C03 catalogues, PRNG profiles and size-steered policies around 4096 instructions is encoded to raw form, checked by a transcription of the kernel's seccomp filter verifier and its reachable return constants are compared with the closed set.",
         "The verifier port is a transcription calibrated against the running kernel on host-loadable programs (kernel tier)."),
 "C06": ("translation_validation", "bisimulation walk over all reachable (label pc, assembled pc) pairs of programs built through the exported builder", "E7", "DESIGN.md 3/C06",
         "Catalogue (jump distances 1..1000 around 255/256, targets ret/load/jump, shared far labels, sparse and dense fillers) and PRNG forward label programs up to 3000 ops are built only through the exported builder; a simultaneous walk visits every reachable pair and requires identical loads, tests and returns, which decides equivalence on all inputs of that program.",
         "Programs are sampled; per program the walk is complete. Policy-sized programs are covered through C01/C03/C05."),
 "C07": ("exploration", "defect injection at every position + rule-drop differential oracle + acceptance of defect-free policies", "E3+E1+E2", "DESIGN.md 3/C07",
         "Each defect class of the statement is injected at every position of accepted base policies and must yield (nil program, error, no panic); defect-free policies from three profiles must be accepted; for every condition a pair of events differing only in what it tests must get different verdicts whenever the reference semantics distinguishes them.",
         "One defect at a time; empty condition lists and unnamed group actions are outside the property."),
 "C12": ("exploration", "exhaustive table audit against vendored independent oracles + cross-process lookup dumps", "oracles+vc", "DESIGN.md 3/C12",
         "All five tables are walked completely: every row is checked for inversion both ways, unique names and equality with every oracle source (kernel UAPI headers, x/sys/unix, Go's syscall package) listing the name; the 16 architecture ids and 29 AUDIT_ARCH names are compared with linux/audit.h; 22 alias keys in three letter cases; N fresh processes must dump identical lookup results (the inversion is redone at every start).",
         "Oracles were generated once from files on this image and are trusted; agreement is required only where an oracle lists the name."),
 "C13": ("exploration", "Go race detector + golden-run byte comparison + sentinel-guarded shared slices + cross-process digests", "vc + race build", "DESIGN.md 3/C13",
         "A fixed PRNG list of policies is compiled by 16 goroutines (distinct values and struct copies sharing backing arrays whose spare capacity holds sentinels) while other goroutines run lookups and text conversions; every program and Dump is compared with a sequential golden run, the policy is deep-compared before/after, the workload is repeated under the race detector, and fresh processes must print identical digests and text forms for all flag/action values.",
         "A clean race-detector run covers only the interleavings that occurred; concurrent use of one *Policy pointer is outside the property."),
 "C14": ("exploration", "parser sweep with three-way case-folding oracle + render/load/compile round trips through the sandbox's configuration path", "vc + go-ucfg", "DESIGN.md 3/C14",
         "Every ASCII case mask of every documented action/operation name, near misses, Unicode fold look-alikes and PRNG strings are offered to the parsers; PRNG valid policies are rendered as documented hand-written YAML, yaml.Marshal and json.Marshal, loaded through ucfg exactly as cmd/sandbox does, compiled and compared instruction by instruction with the in-memory policy's program.",
         "go-ucfg and yaml.v2 are exercised as they are; policies are sampled."),
 "C08": ("exploration", "fresh child process per case: real LoadFilter, raw probe syscalls, kernel outcome vs reference semantics vs interpreter; program compared at hook and via strace at the syscall boundary", "E6 vchild + strace", "DESIGN.md 3/C08",
         "PRNG policies over argument-ignoring probe syscalls (deny-lists, whole-table allow-lists minus probes giving early-return bridges, 12..30-list entries giving 'ja' bridges, conditions on all six arguments) are loaded by the real LoadFilter in throw-away amd64 and 386 processes with flags 0..3 and NNP on/off; directed probes with arbitrary 64-bit register values are issued and the kernel's answer (success, errno, SIGSYS death seen in the wait status, thread disappearance for kill_thread) is compared with the reference semantics; the sock_filter array is compared with the parent's compilation at hook H3 and, sampled, at the syscall boundary by strace.",
         "Host kernel and its two ABIs only; no tracer/listener; 386 children cannot produce argument values >= 2^32; thorough tier adds checkptr and race builds of the child."),
 "C09": ("fault_enumeration", "per-thread /proc state snapshots and probe syscalls around every call of scripted load histories in fresh child processes", "E6 vchild history + strace", "DESIGN.md 3/C09",
         "Histories of LoadFilter/Supported/SetNoNewPrivs calls run on pinned OS threads of throw-away processes: all single-call combinations of 7 flag words x NNP x 5 policy kinds x {root, uid 65534}, the divergent-filter thread-sync pattern, a thread-sync chain and PRNG histories; Seccomp, Seccomp_filters and NoNewPrivs of every task and the outcome of probe syscalls on every pinned thread are compared before/after each call: nil iff the caller's filter count grew (and all threads match with thread-sync), error implies nothing changed, an Assemble failure leaves NoNewPrivs untouched, Supported() changes nothing. Each way the kernel can decline (assemble error, EINVAL oversize, EINVAL flags, EACCES, thread-sync refusal) must be observed.",
         "The kernel's own per-thread state is the oracle; amd64 host only; strace (sampled) records how the kernel declined."),
 "C10": ("exploration", "per-thread event logs ordered by an atomic 'loaded' flag, checked offline; /proc task state at load; race detector on every fourth child", "E6 vchild tsync + -race + strace", "DESIGN.md 3/C10",
         "Child processes with 1..64 pinned OS threads in PRNG mixes of states (spinning, tight probe loop, nanosleep, blocked in read, blocked in futex) plus spawners that create threads during the load; the loader is delayed by a PRNG amount and GOMAXPROCS varies; each thread logs for every probe whether it had seen the loaded flag before beginning the syscall and whether the syscall was filtered; offline: flag seen implies filtered (thread-sync), pre-existing other threads never filtered (no thread-sync); the flags word is compared at hook H3 and, sampled, at the syscall boundary.",
         "Interleavings are reached by stress, not enumerated; the number of distinct interleaving signatures seen is reported. The kernel provides the guarantee; the library's part is passing the flag."),
 "C11": ("exploration", "forced schedules at hook H3 (Gosched storm, forced goroutine migration) in privileged and unprivileged children, thread ids and call order observed by strace", "E6 vchild nnp + strace + hook H3", "DESIGN.md 3/C11",
         "One child per (schedule mode, privilege, NoNewPrivs, flags): between prctl and seccomp hook H3 runs nothing, a Gosched storm, or pins the current OS thread under another goroutine so the loading goroutine cannot return to it; strace records which thread issued prctl(PR_SET_NO_NEW_PRIVS, 1) and seccomp(2) and in which order; /proc state of all tasks before/after; unprivileged loads must succeed iff NoNewPrivs was requested and must leave no filter when they fail.",
         "Three schedule families, not all schedules; a refused migration (goroutine locked to its thread) counts as the property holding."),
 "C16": ("exploration", "site-model generated listings with model-derived expectations, hostile/oversize/truncated/mutated texts and strace-injected read errors, parsed in child processes", "vc c16-worker + strace inject", "DESIGN.md 3/C16",
         "Listings are generated from a site model (functions x site kinds incl. decoy loads, traps inside wrapper functions, traps whose load lies in the previous function, numbers outside the table) for x86_64 and i386, so the expected (number, caller) multiset is known without reading the text; function-boundary prefixes give monotonicity pairs; hostile lines, lines of 65535..1000000 bytes, a directory, truncation at every byte/line and PRNG byte mutations must neither panic nor hang; unreadable texts and reads failing with EIO at every read (strace inject) must yield an error, not a partial result. Batches run in child processes with the input on disk first.",
         "Texts are sampled; names are compared with the kernel UAPI tables vendored under oracles/."),
 "C15": ("fault_enumeration", "black-box runs of the built cmd/sandbox with a marker-leaving probing target; invalid files, real and strace-injected kernel refusals; probe outcomes in the exec'ed target vs reference semantics", "sandbox binary + vchild probe + strace inject", "DESIGN.md 3/C15",
         "The built sandbox command is run with every invalid-file kind, a real oversize policy and strace-injected failures of seccomp(2)/prctl(2) (errno classes and the positive thread-id return): it must exit non-zero and the target's marker file must not appear; with valid PRNG policies rendered to YAML (argv and -no-new-privs variants) the exec'ed target must start filtered and observe, probe by probe, the decisions the reference semantics gives.",
         "Valid policies only decide about probe syscalls so the command's own fork/exec keeps working; lethal actions are not used for targets; amd64 host."),
 "C17": ("fault_enumeration", "two/three-run process histories with real SIGKILLs at swept write offsets, tool failures, ENOSPC/EIO injection; next run's profile vs cold-cache profile", "E8 tool runner (unshare -m, fake go, strace inject)", "DESIGN.md 3/C17",
         "The built seccomp-profiler runs in private mount namespaces with a scripted disassembler: run 1 is SIGKILLed after the disassembler emitted k bytes (k swept over 0, 1, 63..65, every 4096-byte flush boundary +-1, end, PRNG), or the disassembler is absent / exits 1 / is killed after k bytes or after everything, or writes fail with ENOSPC from the K-th on, or hashing hits EIO, or the binary is replaced; the following normal run must print the cold-cache profile or fail. Cache lengths actually left behind by the kills are recorded.",
         "Only states the implementation can really leave behind are judged (real kills, no synthetic prefixes); power-loss reordering is not modelled."),
 "C18": ("exploration", "black-box profiler runs on model listings with chosen discovered multisets; emitted list vs set formula; YAML through the config path to a complete nr decision table; sandbox as consumer", "E8 + E1/E2 + sandbox", "DESIGN.md 3/C18",
         "The built profiler is run on amd64 and 386 Go ELF inputs with listings whose sites are a chosen multiset and PRNG disjoint -b/-allow sets (three separators, repeated flags, unknown and other-architecture names), formats config/code, -d, -out; the emitted list must equal sort(dedup(found) - B + (A in table)); the YAML is loaded through the configuration path, compiled, and its complete nr decision table must be 'allow exactly those, errno otherwise'; the real sandbox consumes emitted profiles with a probing target; thorough: generated Go code is compiled and run.",
         "Discovery itself is C16's subject; here the discovered multiset is fixed by the generated listing."),
 "C19": ("exploration", "probe program executed on linux/amd64, linux/386 and js/wasm (node, under strace); go list file selection for all dist targets", "vconst + node + strace", "DESIGN.md 3/C19",
         "A probe program built with -tags verif is executed on the three runnable targets: 16 constants are compared with the kernel UAPI values, policies compiled for each syscall table must give identical programs on all targets, the non-Linux stubs must report unsupported, compile with an unsupported-architecture error and issue no seccomp/prctl system call (strace of the node process). For the other ~46 targets only the selection of constant/stub files is recorded and must be one that was executed; thorough adds compiler-evaluated constant equalities for 12 built-only targets (static, reported separately).",
         "Reduced level: 3 of 49 targets executed; linux/* values other than amd64/386 come from x/sys/unix files that are never executed here."),
}

def main():
    props = [json.loads(l)["id"] for l in open("properties.jsonl")]
    checks = []
    for cid in props:
        if cid not in CHECKS:
            continue
        cat, tech, engine, ref, text, note = CHECKS[cid]
        checks.append({
            "property_id": cid,
            "quick_cmd": "./vcheck %s quick" % cid,
            "thorough_cmd": "./vcheck %s thorough" % cid,
            "evidence_file": "/verif/evidence/%s.json" % cid,
            "replay_cmd_template": "./vcheck replay {path}",
            "engine": engine,
            "level_claimed": {"category": cat, "text": text, "design_ref": ref},
            "level_note": note,
            "technique": tech,
        })
    m = {
        "version": 1,
        "setup_cmd": "./setup.sh",
        "hooks": {
            "guard": "verif",
            "enable": "go build -tags verif; the harness module /verif/harness has 'replace github.com/elastic/go-seccomp-bpf => /repo', so every check rebuilds /repo's working tree",
            "baseline_off_cmd": "cd /repo && GOFLAGS=-mod=mod GOPROXY=off GOSUMDB=off go test -json -vet=off -count=1 -timeout 25m ./...",
            "source_commits": HOOK_COMMITS,
            "add_only": True,
        },
        "engines": [
            {"name": "vlib", "path": "harness/vlib", "serves_properties": props, "kind_free_text": "cBPF interpreter with coverage (E1), reference semantics (E2), policy/event generators (E3/E4), kernel verifier port (E5), label machine + bisimulation (E7), evidence/verdict writer"},
            {"name": "vc", "path": "harness/cmd/vc", "serves_properties": props, "kind_free_text": "one sub-command per property; runs the real code of /repo (built with -tags verif) and the monitors"},
        ],
        "checks": checks,
        "not_applicable": [{"property_id": p, "reason": "check not built yet; see DESIGN.md section 3"} for p in props if p not in CHECKS],
        "notes": "Runtime monitoring: every verdict comes from observing executions of the real code built from /repo. Exit 0 held, 1 violation, 3 inconclusive. Repaired defects are listed in KNOWN_FINDINGS.txt ('fixed:' lines suppress nothing).",
    }
    json.dump(m, open("MANIFEST.json", "w"), indent=1)
    print("checks:", [c["property_id"] for c in checks])

main()
