#!/usr/bin/env python3
"""Sensitivity self-test: applies one-line source changes to /repo (never committed), confirms each
still compiles and passes the repository's own tests, runs the named check(s) at the quick tier and
expects exit status 1 with a VIOLATION line; restores /repo afterwards.

usage: selftest/mutants.py [id-prefix ...]     results -> selftest/mutants-result.json (+ table on stdout)
"""
import json, os, subprocess, sys, time

REPO = "/repo"
SCRATCH = os.environ.get("MUT_SCRATCH") == "1"  # work on a scratch worktree (removed afterwards) and point the harness at it
if SCRATCH:
    REPO = "/tmp/mutrun"
ENV = dict(os.environ, GOFLAGS="-mod=mod", GOPROXY="off", GOSUMDB="off", GOTOOLCHAIN="local")

# (id, file, old, new, [checks expected to fire], note)
M = [
 ("m01", "filter.go", "p.JmpIfTrue(bpf.JumpEqual, s.Num, action)", "p.JmpIfTrue(bpf.JumpGreaterOrEqual, s.Num, action)", ["C01"], "jeq -> jge for unconditional entries"),
 ("m02", "assembler.go", "action |= Action(errnoEPERM)", "action |= Action(errnoENOSYS)", ["C01"], "errno carries ENOSYS instead of EPERM"),
 ("m03", "filter.go", "\tif last {\n\t\tp.Ret(defaultAction)", "\tif !last {\n\t\tp.Ret(defaultAction)", ["C01", "C03"], "default return in the wrong groups"),
 ("m04", "filter.go", "\t\tif len(group.Names) > 0 || len(group.NamesWithCondtions) > 0 {\n\t\t\tlastGroup = i", "\t\tif len(group.Names) > 0 {\n\t\t\tlastGroup = i", ["C03", "C05"], "a last group with only conditional entries is not recognised as last"),
 ("m05", "filter.go", "p.JmpIf(bpf.JumpGreaterThan, uint32(c.Value), match, noMatch)", "p.JmpIf(bpf.JumpGreaterOrEqual, uint32(c.Value), match, noMatch)", ["C02"], "> lowered as >= on the low word"),
 ("m06", "assembler.go", "\toffset := argumentOffset + sizeOfUint64*arg\n\tif nativeEndian == binary.LittleEndian {", "\toffset := argumentOffset + sizeOfUint64*arg\n\tif nativeEndian == binary.BigEndian {", ["C02"], "LdHi reads the low word"),
 ("m07", "filter.go", "p.JmpIfTrue(bpf.JumpNotEqual, uint32(c.Value>>32), noMatch)\n\t\t\t\tp.LdLo(c.Argument)\n\t\t\t\tp.JmpIf(bpf.JumpEqual,", "p.JmpIfTrue(bpf.JumpNotEqual, uint32(c.Value>>31), noMatch)\n\t\t\t\tp.LdLo(c.Argument)\n\t\t\t\tp.JmpIf(bpf.JumpEqual,", ["C02"], "Equal: high word shifted by 31"),
 ("m08", "filter.go", "p.JmpIf(bpf.JumpBitsNotSet, uint32(c.Value), match, noMatch)", "p.JmpIf(bpf.JumpBitsSet, uint32(c.Value), match, noMatch)", ["C02"], "BitsNotSet polarity on the low word"),
 ("m09", "filter.go", "p.JmpIfTrue(bpf.JumpLessThan, uint32(c.Value>>32), match)\n\t\t\t\tp.JmpIfTrue(bpf.JumpNotEqual, uint32(c.Value>>32), noMatch)\n\t\t\t\tp.LdLo(c.Argument)\n\t\t\t\tp.JmpIf(bpf.JumpLessOrEqual,", "p.JmpIfTrue(bpf.JumpLessThan, uint32(c.Value>>32), match)\n\t\t\t\tp.LdLo(c.Argument)\n\t\t\t\tp.JmpIf(bpf.JumpLessOrEqual,", ["C02"], "LessOrEqual: missing 'hi != -> noMatch'"),
 ("m10", "filter.go", "isLast := i == len(conditions)-1", "isLast := i >= len(conditions)-2", ["C03"], "last-but-one condition already jumps to the action"),
 ("m11", "filter.go", "\tp.instructions = append(p.instructions, bpf.LoadAbsolute{Off: syscallNumOffset, Size: sizeOfUint32})\n}", "}", ["C03"], "accumulator not reloaded after argument checks (D9 back)"),
 ("m12", "filter.go", "check.Conditions = append(check.Conditions, nc.Conditions)", "check.Conditions = []ArgumentConditions{nc.Conditions}", ["C03"], "merge of same-name entries keeps only the last list"),
 ("m13", "filter.go", "if jumpN <= 255 {", "if jumpN <= 256 {", ["C04"], "arch jump: 256 encoded in 8 bits"),
 ("m14", "filter.go", "bpf.JumpIf{Cond: bpf.JumpGreaterOrEqual, Val: uint32(arch.X32.SeccompMask), SkipFalse: 1}", "bpf.JumpIf{Cond: bpf.JumpGreaterThan, Val: uint32(arch.X32.SeccompMask), SkipFalse: 1}", ["C04"], "x32 guard jge -> jgt"),
 ("m15", "filter.go", "if p.arch.ID == arch.X86_64.ID {\n\t\tx32Filter", "if p.arch.ID == arch.I386.ID {\n\t\tx32Filter", ["C04"], "x32 guard emitted for i386 instead of x86_64"),
 ("m16", "filter.go", "jumpN := len(x32Filter) + len(instructions) - 1", "jumpN := len(x32Filter) + len(instructions)", ["C04"], "arch mismatch lands on the last group's action"),
 ("m17", "filter.go", "condition.Argument > 5 {", "condition.Argument > 6 {", ["C05", "C07"], "argument index 6 accepted (load outside seccomp_data)"),
 ("m18", "filter.go", "\t\tjumpN++\n", "", ["C04"], "all-empty policy: arch jump not adjusted"),
 ("m19", "assembler.go", "jumpDest = bpf.Jump{Skip: uint32(skipN)}", "jumpDest = bpf.Jump{Skip: uint32(skipN) + 1}", ["C06"], "long jump lands one instruction late"),
 ("m20", "assembler.go", "jumpDest = bpf.Jump{Skip: uint32(skipN) + 1 + dest.Skip}", "jumpDest = bpf.Jump{Skip: uint32(skipN) + dest.Skip}", ["C06"], "chained long jump off by one"),
 ("m21", "assembler.go", "\t\tfor skipTrue > math.MaxUint8 || skipFalse > math.MaxUint8 {", "\t\tif skipTrue > math.MaxUint8 || skipFalse > math.MaxUint8 {", ["C06"], "only one bridging round per jump"),
 # m22 is behaviourally equivalent for labels that are set once (the order of destinations only matters when a nearer one is in reach, in which case no bridge is inserted); kept for the record
 ("m22", "assembler.go", "\tfor pos < len(dest) && dest[pos] < insertIndex {", "\tfor pos < len(dest) && dest[pos] <= insertIndex+255 {", ["C06"], "bridge registered behind nearer destinations"),
 ("m23", "filter.go", "if getSyscall(syscalls, syscall) == nil {\n\t\t\t\tsyscalls = append(syscalls, SyscallWithConditions{Num: syscall})\n\t\t\t} else {", "if true {\n\t\t\t\tsyscalls = append(syscalls, SyscallWithConditions{Num: syscall})\n\t\t\t} else {", ["C07"], "duplicate names accepted"),
 ("m24", "filter.go", "if !condition.Operation.isValid() {", "if false {", ["C07"], "unknown operation omitted again (D4 back)"),
 ("m25", "filter.go", "if len(p.Syscalls) == 0 {", "if p.Syscalls == nil {", ["C07"], "empty (non-nil) group list accepted"),
 ("m26", "filter.go", "if len(check.Conditions) == 0 {\n\t\t\t\t\t// Unconditional check found.", "if false {\n\t\t\t\t\t// Unconditional check found.", ["C07"], "conditional + unconditional accepted"),
 ("m27", "seccomp_linux.go", "\t\t\tJt:   instruction.Jt,\n\t\t\tJf:   instruction.Jf,", "\t\t\tJt:   instruction.Jf,\n\t\t\tJf:   instruction.Jt,", ["C08"], "Jt/Jf swapped in sock_filter"),
 ("m28", "seccomp_linux.go", "Len:    uint16(len(sockFilter)),", "Len:    uint16(len(sockFilter) - 1),", ["C08"], "sock_fprog.len one short"),
 ("m29", "seccomp_linux.go", "seccomp(seccompSetModeFilter, filter.Flag, unsafe.Pointer(program))", "seccomp(seccompSetModeFilter, filter.Flag&FilterFlagTSync, unsafe.Pointer(program))", ["C08", "C10"], "flags word masked"),
 ("m30", "seccomp_linux.go", "K:    instruction.K,", "K:    instruction.K &^ 0x100,", ["C08"], "one bit of K cleared"),
 ("m31", "seccomp_linux.go", "\tif r > 0 && op == seccompSetModeFilter &&", "\tif false && r > 0 && op == seccompSetModeFilter &&", ["C09", "C15"], "positive tsync return ignored (D8 back)"),
 ("m32", "seccomp_linux.go", "unsafe.Pointer(program)); err != nil {", "unsafe.Pointer(program)); err != nil && err != syscall.EINVAL {", ["C09", "C15"], "EINVAL of seccomp(2) swallowed"),
 ("m33", "seccomp_linux.go", "\tif err := seccomp(seccompSetModeStrict, 1, nil); err == syscall.EINVAL {", "\tSetNoNewPrivs()\n\tif err := seccomp(seccompSetModeStrict, 1, nil); err == syscall.EINVAL {", ["C09"], "Supported() sets no_new_privs"),
 ("m34", "constants.go", ["FilterFlagTSync FilterFlag = unix.SECCOMP_FILTER_FLAG_TSYNC", "FilterFlagLog FilterFlag = unix.SECCOMP_FILTER_FLAG_LOG"], ["FilterFlagTSync FilterFlag = unix.SECCOMP_FILTER_FLAG_LOG", "FilterFlagLog FilterFlag = unix.SECCOMP_FILTER_FLAG_TSYNC"], ["C10", "C19"], "TSYNC and LOG constants swapped"),
 ("m35", "seccomp_linux.go", ["\truntime.LockOSThread()\n\tdefer runtime.UnlockOSThread()\n", "\t\"runtime\"\n"], ["", ""], ["C11"], "no thread pinning (D10 back)"),
 ("m36", "seccomp_linux.go", "\tif filter.NoNewPrivs {\n\t\tif err = SetNoNewPrivs()", "\tif true {\n\t\tif err = SetNoNewPrivs()", ["C11"], "no_new_privs set unconditionally"),
 ("m37", "seccomp_linux.go", "\tif filter.NoNewPrivs {\n\t\tif err = SetNoNewPrivs()", "\tif false {\n\t\tif err = SetNoNewPrivs()", ["C11"], "no_new_privs never set"),
 ("m38", "arch/zsyscalls.go", ["\t195:    \"stat64\",", "\t196:    \"lstat64\","], ["\t195:    \"lstat64\",", "\t196:    \"stat64\","], ["C12"], "arm: two names swapped"),
 ("m39", "arch/info.go", "\"arm64\":   AARCH64,", "\"arm64\":   ARM,", ["C12"], "alias arm64 -> arm table"),
 ("m40", "arch/info.go", "if !found || len(arch.SyscallNames) == 0 {", "if !found {", ["C12", "C07"], "table-less architectures returned without error"),
 ("m41", "arch/zarches.go", "auditArchPPC         AuditArch = 0x14", "auditArchPPC         AuditArch = 0x15", ["C12"], "AUDIT_ARCH_PPC value"),
 ("m42", "arch/zsyscalls.go", "\t59:  \"execve\",\n\t60:  \"exit\",", "\t59:  \"exit\",\n\t60:  \"execve\",", ["C12"], "x86_64: two rows swapped"),
 ("m43", "filter.go", "\tfor _, flag := range filterFlags {\n\t\tif f&flag != 0 {\n\t\t\tf ^= flag\n\t\t\tlist = append(list, filterFlagNames[flag])", "\tfor flag, name := range filterFlagNames {\n\t\tif f&flag != 0 {\n\t\t\tf ^= flag\n\t\t\tlist = append(list, name)", ["C13"], "flag text in map order (D11 back)"),
 ("m44", "filter.go", "\t\tif group.arch == nil {\n\t\t\tgroup.arch = p.arch\n\t\t}", "\t\tif group.arch == nil {\n\t\t\tp.Syscalls[i].arch = p.arch\n\t\t\tgroup.arch = p.arch\n\t\t}", ["C13"], "writes into the caller's group slice (race between copies sharing it)"),
 ("m45", "filter.go", "\tsyscalls, err := g.toSyscallsWithConditions()", "\tg.Names = append(g.Names[:0], g.Names...)\n\tsyscalls, err := g.toSyscallsWithConditions()", ["C13"], "rewrites the caller's Names array in place"),
 ("m46", "filter.go", "ActionKillProcess: \"kill_process\",", "ActionKillProcess: \"kill\",", ["C14"], "action name table edited"),
 ("m47", "filter.go", "func (a *Action) Unpack(s string) error {\n\ts = strings.ToLower(s)", "func (a *Action) Unpack(s string) error {", ["C14"], "actions parsed case-sensitively"),
 ("m48", "filter.go", "`config:\"argument\" default:\"0\" json:\"argument\"  yaml:\"argument\"`", "`config:\"argument\" default:\"0\" json:\"position\"  yaml:\"position\"`", ["C14"], "marshal key 'position' (D12 back)"),
 ("m49", "filter.go", "`config:\"syscalls\"       json:\"syscalls\"       yaml:\"syscalls\"`", "`config:\"syscalls\"       json:\"syscalls\"       yaml:\"syscall\"`", ["C14"], "yaml tag typo for the group list"),
 ("m50", "filter.go", "\treturn fmt.Errorf(\"invalid operation: %v\", s)\n}", "\t*o = Equal\n\treturn nil\n}", ["C14"], "unknown operation names parse as Equal"),
 ("m51", "filter.go", "\treturn fmt.Errorf(\"invalid action: %v\", s)\n}", "\t*a = ActionAllow\n\treturn nil\n}", ["C14", "C15"], "unknown action names parse as allow"),
 ("m52", "cmd/sandbox/main.go", "\t\tfmt.Fprintf(os.Stderr, \"error loading filter: %v\\n\", err)\n\t\tos.Exit(1)", "\t\tfmt.Fprintf(os.Stderr, \"error loading filter: %v\\n\", err)", ["C15"], "target runs although the filter failed to load"),
 ("m53", "cmd/sandbox/main.go", "Policy:     *policy,", "Policy:     seccomp.Policy{DefaultAction: policy.DefaultAction, Syscalls: policy.Syscalls[:1]},", ["C15"], "only the first group of the file is installed"),
 ("m54", "cmd/sandbox/main.go", "Flag:       seccomp.FilterFlagTSync,", "Flag:       0,", ["C15"], "no thread-sync: the forked target may come from an unfiltered thread"),
 ("m55", "cmd/seccomp-profiler/disasm/disasm.go", "\t\t\t\tfunction = line[len(functionMarker)+1:]\n\t\t\t}\n\t\t\tinstructions = instructions[:0]", "\t\t\t\tfunction = line[len(functionMarker)+1:]\n\t\t\t}", ["C16"], "instruction window not reset at a function start"),
 ("m56", "cmd/seccomp-profiler/disasm/disasm.go", "for i := len(instructions) - 1; i >= 0; i-- {", "for i := 0; i < len(instructions); i++ {", ["C16"], "number search runs forward"),
 ("m57", "cmd/seccomp-profiler/disasm/disasm.go", "\tif err := s.Err(); err != nil {\n\t\treturn nil, fmt.Errorf(\"failed to read objdump file: %v\", err)\n\t}", "", ["C16"], "scanner error dropped"),
 ("m58", "cmd/seccomp-profiler/disasm/disasm.go", "\t\tif !found {\n\t\t\tfmt.Fprintf(os.Stderr, \"WARN: unknown syscall", "\t\tif !found && syscall.Num < 0 {\n\t\t\tfmt.Fprintf(os.Stderr, \"WARN: unknown syscall", ["C16"], "numbers outside the table reported"),
 ("m59", "cmd/seccomp-profiler/disasm/disasm.go", "num, err := strconv.ParseInt(matches[1], 0, 64)", "num, err := strconv.ParseInt(matches[1], 16, 64)", ["C16"], "numbers parsed as hexadecimal only"),
 ("m60", "cmd/seccomp-profiler/main.go", "\tif err = cmd.Run(); err != nil {\n\t\treturn \"\", err\n\t}\n\n\tif err = out.Flush()", "\tcmd.Run()\n\n\tif err = out.Flush()", ["C17"], "failing disassembler's partial output cached"),
 ("m61", "cmd/seccomp-profiler/main.go", "if err == nil && n == len(buf) && hash == string(buf) {", "if err == nil && n == len(buf) {", ["C17"], "cache trusted without comparing the hash"),
 ("m62", "cmd/seccomp-profiler/main.go", ["f, err = os.CreateTemp(filepath.Dir(dumpFile), filepath.Base(dumpFile)+\".tmp\")", "\tdefer os.Remove(f.Name())\n"], ["f, err = os.Create(dumpFile)", ""], ["C17"], "dump written in place again (D7 back)"),
 ("m63", "cmd/seccomp-profiler/main.go", "\tsort.Strings(names)\n\n\t// Open the output.", "\n\t// Open the output.", ["C18"], "names not sorted"),
 ("m64", "cmd/seccomp-profiler/main.go", "\t\tif _, found := filter[s]; !found {\n\t\t\tout = append(out, s)", "\t\tif _, found := filter[s]; found {\n\t\t\tout = append(out, s)", ["C18"], "blacklist inverted"),
 ("m65", "cmd/seccomp-profiler/main.go", "\t\tif _, found := archInfo.SyscallNames[s]; found {\n\t\t\t_, found := m[s]", "\t\tif true {\n\t\t\t_, found := m[s]", ["C18"], "always-allow names not checked against the table"),
 ("m66", "cmd/seccomp-profiler/main.go", "\t\tSeccomp: seccomp.Policy{\n\t\t\tDefaultAction: seccomp.ActionErrno,", "\t\tSeccomp: seccomp.Policy{\n\t\t\tDefaultAction: seccomp.ActionAllow,", ["C18"], "emitted YAML profile defaults to allow"),
 ("m67", "cmd/seccomp-profiler/main.go", "\t\tm[s.Num] = s\n", "\t\tm[s.Num%256] = s\n", ["C18"], "deduplication key truncated"),
 ("m68", "internal/unix/types_other.go", "SECCOMP_RET_TRAP         = 0x30000", "SECCOMP_RET_TRAP         = 0x30001", ["C19"], "non-Linux copy of a constant"),
 ("m69", "seccomp_unsupported.go", "func Supported() bool {\n\treturn false", "func Supported() bool {\n\treturn true", ["C19"], "stub reports support"),
 ("m70", "arch/info.go", "\t\treturn nil, fmt.Errorf(\"unsupported arch: %v\", name)", "\t\tfmt.Sprint(name)\n\t\treturn X86_64, nil", ["C19", "C12", "C07"], "unknown architectures fall back to the x86_64 table"),
 ("m71", "internal/unix/types_other.go", "ENOSYS = 0x26", "ENOSYS = 0x4e", ["C19"], "non-Linux ENOSYS"),
]

def sh(cmd, cwd=None, timeout=1800):
    p = subprocess.run(cmd, shell=True, cwd=cwd, env=ENV, stdout=subprocess.PIPE, stderr=subprocess.STDOUT, text=True, timeout=timeout)
    return p.returncode, p.stdout

def main():
    want = sys.argv[1:]
    if SCRATCH:
        sh("git -C /repo worktree remove --force %s" % REPO)
        rc, out = sh("git -C /repo worktree add -q --detach %s HEAD" % REPO)
        assert rc == 0, out
    assert sh("git status --porcelain", REPO)[1].strip() == "", "%s has uncommitted changes" % REPO
    results = []
    for (mid, f, old, new, checks, note) in M:
        if want and not any(mid.startswith(w) or w in checks for w in want):
            continue
        path = os.path.join(REPO, f)
        src = open(path).read()
        olds, news = (old, new) if isinstance(old, list) else ([old], [new])
        bad = [o for o in olds if src.count(o) != 1]
        if bad:
            results.append({"id": mid, "status": "pattern-not-unique", "note": note})
            print(mid, "PATTERN", [src.count(o) for o in olds], note); continue
        for o, n in zip(olds, news):
            src = src.replace(o, n, 1)
        open(path, "w").write(src)
        try:
            rc, out = sh("gofmt -l . >/dev/null; go build ./... && go vet ./... >/dev/null 2>&1; go build ./... && go test -vet=off -count=1 ./... 2>&1 | tail -3", REPO)
            builds = sh("go build ./... ", REPO)[0] == 0
            tests_pass = builds and "FAIL" not in out and "ok" in out
            row = {"id": mid, "file": f, "note": note, "builds": builds, "repo_tests_pass": tests_pass, "checks": {}}
            if builds:
                for c in checks:
                    t0 = time.time()
                    crc, cout = sh("VERIF_EVIDENCE_DIR=/tmp/mutants_evidence VERIF_REPO=%s ./vcheck %s quick" % (REPO, c), "/verif")
                    first = [l for l in cout.splitlines() if l.startswith("  ")][:1]
                    row["checks"][c] = {"rc": crc, "s": round(time.time() - t0, 1), "first": (first[0].strip()[:160] if first else cout.strip()[-160:])}
            results.append(row)
            det = [c for c, v in row["checks"].items() if v["rc"] == 1]
            print(mid, "builds" if builds else "NOBUILD", "tests-pass" if tests_pass else "TESTS-FAIL", "detected-by=%s" % det, "missed-by=%s" % [c for c, v in row["checks"].items() if v["rc"] != 1], "|", note)
        finally:
            sh("git checkout -- .", REPO)
    if SCRATCH:
        sh("git -C /repo worktree remove --force %s" % REPO)
    json.dump(results, open("/verif/selftest/mutants-result.json" if not want else "/tmp/mutants-partial.json", "w"), indent=1)
    sh("rm -rf /verif/replays/*")

main()
