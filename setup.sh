#!/bin/bash
# Builds everything the checks need once, so that the Go build cache is warm.
# Offline; uses only the module cache on disk.
set -eu
cd "$(dirname "$(readlink -f "$0")")"
export GOFLAGS=-mod=mod GOPROXY=off GOSUMDB=off GOTOOLCHAIN=local
for t in strace unshare timeout; do command -v $t >/dev/null || { echo "missing tool: $t"; exit 1; }; done
out="$(mktemp -d /tmp/vsetup.XXXXXX)"
trap 'rm -rf "$out"' EXIT
cd harness
go build -tags verif -o "$out/" ./cmd/...
GOARCH=386 go build -tags verif -o "$out/vchild386" ./cmd/vchild
GOARCH=386 go build -tags verif -o "$out/vc386" ./cmd/vc
GOOS=js GOARCH=wasm go build -tags verif -o "$out/vconst.wasm" ./cmd/vconst
go build -race -tags verif -o "$out/vc-race" ./cmd/vc
go build -race -tags verif -o "$out/vchild-race" ./cmd/vchild
(cd /repo && go build -o "$out/" ./cmd/...)
echo "setup ok"
